#!/usr/bin/env python3
"""Builds the executor for a variant from /repo's current working tree (ninja, clang 14).

The source list is read from /repo/CMakeLists.txt each time; objects are rebuilt through
depfiles whenever a source or header under /repo changed."""
import fcntl, os, re, subprocess, sys

VERIF = os.path.dirname(os.path.dirname(os.path.abspath(__file__)))
REPO = os.environ.get("VERIF_REPO", "/repo")
GUARD = "IPHREEQC_VERIF"

VARIANTS = {
    "asan":  "-O1 -g -fsanitize=address,undefined -fno-sanitize-recover=undefined -fno-omit-frame-pointer -fsanitize-ignorelist=" + os.path.join(os.path.dirname(os.path.dirname(os.path.abspath(__file__))), "sim", "ubsan_ignore.txt"),
    # C08 (damaged input): memory errors, wild object calls and crashes, without the arithmetic-conversion and
    # null-reference-binding checks of -fsanitize=undefined (see DESIGN 8.7: the unchanged tree has dozens of such sites behind edge numbers)
    "asanlite": "-O1 -g -fsanitize=address,vptr,bounds,return,unreachable -fno-sanitize-recover=all -fno-omit-frame-pointer -fsanitize-ignorelist=" + os.path.join(os.path.dirname(os.path.dirname(os.path.abspath(__file__))), "sim", "ubsan_ignore.txt"),
    "tsan":  "-O1 -g -fsanitize=thread -fno-omit-frame-pointer",
    "plain": "-O2 -g",
}
WRAP = "-Wl,--wrap=pthread_mutex_lock,--wrap=pthread_mutex_unlock,--wrap=clock,--wrap=malloc,--wrap=calloc,--wrap=realloc,--wrap=exit"


def repo_sources():
    txt = open(os.path.join(REPO, "CMakeLists.txt")).read()
    m = re.search(r"add_library\(IPhreeqc \$\{LIB_TYPE\} (\S+)\)", txt)
    srcs = [m.group(1)]
    m = re.search(r"target_sources\(IPhreeqc\s+PRIVATE(.*?)\)", txt, re.S)
    for tok in m.group(1).split():
        if tok.endswith((".cpp", ".cxx", ".c")):
            srcs.append(tok)
    return srcs


def build(variant, quiet=True):
    bdir = os.path.join(VERIF, "build", variant)
    os.makedirs(bdir, exist_ok=True)
    lock = open(os.path.join(VERIF, "build", ".lock"), "w")
    fcntl.flock(lock, fcntl.LOCK_EX)
    try:
        san = VARIANTS[variant]
        inc = " ".join("-I" + os.path.join(REPO, d) for d in ("src", "src/phreeqcpp", "src/phreeqcpp/common", "src/phreeqcpp/PhreeqcKeywords"))
        defs = "-DSWIG_SHARED_OBJ -DUSE_PHRQ_ALLOC -DNDEBUG -D" + GUARD
        lines = [
            "ninja_required_version = 1.5",
            f"cxxflags = {san} {defs} {inc} -w -std=gnu++14 -pthread",
            f"cflags = {san} {defs} {inc} -w -pthread",
            f"simflags = -O2 -g -fno-builtin {defs} {inc} -I{VERIF}/sim -w -std=gnu++14 -pthread -fno-omit-frame-pointer",
            f"exeflags = {san} {defs} {inc} -I{VERIF}/sim -w -std=gnu++14 -pthread",
            "rule cxx\n  command = clang++ $cxxflags -MMD -MF $out.d -c $in -o $out\n  depfile = $out.d\n  deps = gcc\n  description = CXX $out",
            "rule cc\n  command = clang $cflags -MMD -MF $out.d -c $in -o $out\n  depfile = $out.d\n  deps = gcc\n  description = CC $out",
            "rule simcxx\n  command = clang++ $simflags -MMD -MF $out.d -c $in -o $out\n  depfile = $out.d\n  deps = gcc\n  description = SIM $out",
            "rule execxx\n  command = clang++ $exeflags -MMD -MF $out.d -c $in -o $out\n  depfile = $out.d\n  deps = gcc\n  description = EXE $out",
            f"rule link\n  command = clang++ {san} -o $out $in {WRAP} -pthread -ldl\n  description = LINK $out",
        ]
        objs = []
        for s in repo_sources():
            o = "obj/" + s.replace("/", "_") + ".o"
            rule = "cc" if s.endswith(".c") else "cxx"
            lines.append(f"build {o}: {rule} {os.path.join(REPO, s)}")
            objs.append(o)
        for s in ("sched.cpp", "filelayer.cpp"):
            o = "obj/sim_" + s + ".o"
            lines.append(f"build {o}: simcxx {VERIF}/sim/{s}")
            objs.append(o)
        lines.append(f"build obj/executor.o: execxx {VERIF}/sim/executor.cpp")
        objs.append("obj/executor.o")
        lines.append("build executor: link " + " ".join(objs))
        lines.append("default executor")
        nf = os.path.join(bdir, "build.ninja")
        content = "\n".join(lines) + "\n"
        if not os.path.exists(nf) or open(nf).read() != content:
            open(nf, "w").write(content)
        r = subprocess.run(["ninja", "-C", bdir, "-j", str(os.cpu_count() or 8)], stdout=subprocess.PIPE, stderr=subprocess.STDOUT, text=True)
        if r.returncode != 0:
            sys.stderr.write(r.stdout[-8000:])
            raise SystemExit("BUILD FAILED for variant %s (this is a harness/build fault, not a property verdict)" % variant)
        if not quiet:
            print(r.stdout[-2000:])
        return os.path.join(bdir, "executor")
    finally:
        fcntl.flock(lock, fcntl.LOCK_UN)
        lock.close()


if __name__ == "__main__":
    for v in (sys.argv[1:] or ["asan", "tsan", "plain"]):
        print(v, build(v, quiet=False))
