#!/usr/bin/env python3
"""Writes /verif/MANIFEST.json from the table below (kept here so that the file is always valid)."""
import json, os
VERIF = os.path.dirname(os.path.dirname(os.path.abspath(__file__)))

CHECKS = {
    "C13": dict(level="exploration", ref="DESIGN.md §4 C13",
                text="Seeded search over API call histories (sequential under ASan+UBSan, concurrent under TSan with the seeded baton scheduler) "
                     "checked operation by operation against an executable reference model of the registry and the settings store, and across the "
                     "three bindings. Sampling, not enumeration: a clean batch is evidence that no modelled divergence exists on the explored histories.",
                note="Trusted: the reference model (harness/c13.py) as a reading of IPhreeqc.h/.hpp; Fortran glue called from C (no Fortran compiler); clang 14 sanitizers.",
                technique="deterministic simulation: seeded call histories vs executable reference model; TSan under seeded scheduler"),
}

CHECKS["C09"] = dict(level="exploration", ref="DESIGN.md §4 C09",
    text="Seeded search over histories of runs with changing sink configurations (2^9 global switch vectors x per-user-number selected-output "
         "switches x names x inputs) executed over a simulated file layer that captures every byte each descriptor receives; oracles: file bytes == "
         "string, line accessors == lines of the string, disabled sinks receive nothing, error-string lines are a subsequence of the error file, "
         "results equal a reference execution with all strings on and files off; a separate configuration injects sink faults.",
    note="Trusted: descriptor-level capture in the interposed libc file calls; reference execution is the same library (a defect affecting both equally is invisible). Known findings KF1-KF3 are reported as KNOWN-FINDING, any other violation fails the check.",
    technique="deterministic simulation: seeded sink-configuration histories over a simulated file layer with injected sink faults; replica agreement + reference execution")

CHECKS["C06"] = dict(level="exploration", ref="DESIGN.md §4 C06",
    text="Seeded search over thread schedules: 2-4 real client threads under the seeded baton scheduler (TSan build, switch points at API "
         "boundaries, mutex lock/unlock, clock(), C allocations, file calls, after every sink call) each running create/load/run/read/destroy lifecycles from every engine "
         "area on their own instances; one plan in four starts its threads in a fresh process (first-use set-up under concurrency), one in five is a storm "
         "(all threads run the same input, with a rendezvous before every sink call), one lifecycle in eight starts with a failed load. Oracles: ThreadSanitizer silent, no deadlock, progress within a step budget, ids unique and never reused, dead "
         "ids answer the documented values, no library mutex unlocked by a thread that does not hold it, every client's observations equal the same program run alone (isolation), and equal again in a second "
         "process with ASLR off, padded environment and shifted heap (bitwise repeatability).",
    note="Trusted: clang 14 ThreadSanitizer (instrumented code only), the scheduler's invisibility to TSan (relaxed atomics + futex in an uninstrumented TU), frozen per-client simulated clock. Sampling of schedules, not enumeration.",
    technique="deterministic simulation: seeded thread scheduler over real pthreads with TSan, solo-run reference execution, cross-process repeatability")

CHECKS["C07"] = dict(level="fault_enumeration", ref="DESIGN.md §4 C07",
    text="Seeded search over call histories that end in an injected crash point: 0-3 successful segments (databases, setters, inputs that flip sticky "
         "state) then at most one failing call — the library's own stop exception raised at the k-th message of a class, the k-th C allocation returning "
         "NULL, a genuine input error, EIO/EOF inside RunFile, or a failed database load — with k spread over the whole call (measured per history), "
         "then LoadDatabase(String), a getter sweep and 1-3 probes. Oracle: everything observable after the load, including the file layer's record of "
         "opened paths, modes and byte counts, equals a fresh instance given the same setters, load and probes; ASan/UBSan silent.",
    note="Trusted: reference execution is the same library on a fresh instance; ids in default names masked; names given by -file in input count as user-set names (allowed to survive). Crash positions: the quick tier samples them (log-uniform fraction of the call, plus one seeded sample from every stratum of 13 consecutive message / allocation indices of thirteen short runs); the thorough tier enumerates every index of those thirteen runs.",
    technique="deterministic simulation: seeded histories with injected crash points (abort at k-th message, k-th allocation NULL, read EIO, failed load) vs fresh-instance reference execution")

CHECKS["C08"] = dict(level="fault_enumeration", ref="DESIGN.md §4 C08",
    text="Seeded search over fault sequences on a freshly loaded instance: one bad call per case from five families — stored-byte faults on corpus inputs "
         "(flipped bytes, deleted/duplicated/swapped lines, edge numbers, deleted tokens, truncation, inserted garbage at fractional positions), the same on "
         "database texts, file faults (missing database/input/include, EIO/EOF/short reads/EINTR at byte N, open failure/ENOSPC/short write/failing close on each "
         "output sink and the dump file), the k-th C allocation returning NULL in a run or a load, and degenerate arguments — followed by a reload and a probe. "
         "Oracle: the call returns (exit trapped, no signal, no escaping exception, ASan/UBSan silent), return != 0 <=> error text recorded, the strings hold "
         "nothing of an earlier successful run, and the reloaded instance equals a fresh one given the same setter calls.",
    note="Trusted: clang 14 ASan/UBSan as the memory/UB oracle; message budget (400000) and a 120 s watchdog bound runaway inputs (counted inconclusive, never a violation). Known findings KF14-KF16 (UBSan reports in readers for damaged input) are listed by call site; any other site fails the check.",
    technique="deterministic simulation: seeded fault sequences (stored-byte, file, allocation and argument faults) under ASan/UBSan with exit trap, followed by reload and fresh-instance reference execution")

CHECKS["C05"] = dict(level="exploration", ref="DESIGN.md §4 C05",
    text="Seeded search over run histories with generated SELECTED_OUTPUT/USER_PUNCH blocks (arbitrary user numbers, option sets, high precision, fewer/more punched "
         "values than headings, strings of length 0..26, redefinition, PRINT -selected_output false), per-user file/string switches, names and current user number. "
         "The value table, the string, the line accessors, the file bytes captured by the simulated file layer and the C / Fortran-glue accessors are treated as "
         "replicas of one write path and compared cell by cell (numbers re-rendered in the text cell's own format), with out-of-range and unknown-user-number sweeps "
         "and a configuration that fails the block's file sink.",
    note="Trusted: the format-agnostic re-rendering of doubles (Python %e/%f/%g equals C printf for finite values), heading-name mapping with positional fallback. Known findings KF17/KF18 (= KF1/KF4 seen through this property) are reported as KNOWN-FINDING.",
    technique="deterministic simulation: seeded sink-configuration histories over a simulated file layer; replica agreement between table, string, lines, file and bindings; sink faults")

CHECKS["C04"] = dict(level="exploration", ref="DESIGN.md §4 C04",
    text="Seeded search over call histories that deliver one error-free multi-simulation text: cut sets over its END positions, per piece one of the three entry "
         "points, read chunking and EINTR on RunFile pieces (delivery faults that must be transparent) and benign accessor calls between pieces. Oracle: the "
         "concatenated selected-output data rows (by heading name, bitwise, sim column excepted), the final DUMP -all text (simulation numbers in descriptions masked) "
         "and the component list equal those of a single RunString of the whole text on a fresh instance; every piece returns 0.",
    note="Trusted: reference is the same library along the single-call path. Inputs whose single-call reference returns errors are skipped and counted. GetComponentCount/GetComponent are not used as benign calls (ListComponents rewrites the KINETICS -totals workspace field; recorded in DESIGN).",
    technique="deterministic simulation: seeded delivery histories (cut sets x entry points x read chunking/EINTR x benign calls) vs single-call reference execution")

CHECKS["C10"] = dict(level="exploration", ref="DESIGN.md §4 C10",
    text="Checkpoint / crash / restart over seeded histories: 1-5 state-building calls covering every entity kind, DUMP -all taken at a drawn call boundary from the dump "
         "string or from the dump file captured by the simulated file layer, the instance abandoned, and a new instance restarted from the database, the definitions and that "
         "text (through RunString, or RunFile under short reads and EINTR). Oracles: the restore raises no error; dump(restore(D')) == D' after one cycle; follow-ups "
         "(equilibration, RUN_CELLS, MIX, ADVECTION) give the same selected-output cells on the restored and the original state (relative 1e-7; kinetic integration 1e-4); "
         "storage-bin / serializer / engine-copy round trips in memory leave text (where carried) and follow-up results unchanged; SOLUTION_MODIFY of totals, H, O, charge "
         "over a solution of different composition gives the same follow-up.",
    note="Trusted: reference is the original instance of the same library; pe and far-from-saturation SI columns are ill-conditioned and handled as documented in the module. Known findings KF19 (14-digit text vs unbuffered pH) and KF20 (isotopes in SOLUTION_RAW cannot be read back).",
    technique="deterministic simulation: seeded histories with checkpoint at a drawn boundary, crash (instance abandoned) and restart from durable text under read chunking; original instance as reference; fixed-point check")

CHECKS["C14"] = dict(level="exploration", ref="DESIGN.md §4 C14",
    text="Seeded search over histories of store operations (definitions with ranges, redefinition, SAVE after a calculation, COPY of a kind or a whole cell to a number or a range, "
         "DELETE of kinds / numbers / ranges / cells / everything, *_MODIFY, MIX, RUN_CELLS; 1-4 simulations per call) checked after every call against an executable reference "
         "map (kind, number) -> content id, read from DUMP -all by an independent RAW reader: key set, copies content-identical, ranges uniform, untouched entries unchanged, "
         "redefinitions effective, modified quantities read back, component list covers the stored reactants; a second instance replays the history with RUN_CELLS replaced by explicit USE/SAVE.",
    note="No schedule or fault dimension: what the framework contributes here is the seeded history search, the reference model, shrinking and replay (stated honestly in DESIGN). Trusted: the RAW reader's notion of content (workspace sections excluded).",
    technique="deterministic simulation: seeded operation histories vs executable reference model (keyed store), recorded-history checking after every call")

CHECKS["C02"] = dict(level="exploration", ref="DESIGN.md §4 C02",
    text="Seeded search over histories of reaction steps (batch reactions with REACTION lists in cumulative or incremental mode, RUN_CELLS with time steps, MIX, COPY and "
         "SAVE/USE chaining over cells holding solutions, equilibrium phases, exchangers, surfaces with implicit/explicit diffuse layers, gas phases, solid solutions and "
         "kinetic reactants) judged by an independent mass/charge ledger over the RAW dump before and after each step; two fault configurations drive the solver's retry "
         "ladder: hook H1 reports converged attempts as failed or skips attempts for the first 1-6 rungs of a seeded subset of solves, and KNOBS -iterations is drawn small "
         "so that first attempts genuinely fail. Also: entities a step does not name stay textually unchanged; no amount becomes negative.",
    note="Trusted: the hand-transcribed formula table and the RAW reader; the ledger reads the engine's own dump. Steps ending in an error are outside the statement. Known finding KF21: inventories below 1e-5 mol are conserved only to an absolute ~1e-10 mol.",
    technique="deterministic simulation: seeded step histories vs independent ledger model, with injected solver-retry faults (guarded buggify hook H1, small iteration limits)")

NA = {
    "C01": "pure function of (input, database): deciding it needs an independent thermodynamic evaluator, no schedule, clock, fault or call history takes part",
    "C03": "pure function of the input assemblage; the only fault-like path (solver retry ladder) is exercised under C02",
    "C11": "the column is simulated by the engine itself in deterministic program order; quantified over numeric configurations only",
    "C12": "numerical-analysis property of a deterministic integrator over input configurations (its conservation clause is covered by C02's ledger)",
    "C15": "metamorphic relation between two pure input->output evaluations; nothing for a scheduler or fault injector to drive",
    "C16": "pure function of composition (activity-coefficient equations, Gibbs-Duhem)",
    "C17": "differential testing of BASIC semantics over generated programs; the 'malformed program never crashes' clause is inside C08's input faults",
    "C18": "pure function of the inverse problem",
    "C19": "pure function of the gas-phase input",
    "C20": "pure function of the surface input",
}
PENDING = {}


def main():
    checks = []
    for pid in sorted(CHECKS):
        c = CHECKS[pid]
        checks.append({
            "property_id": pid,
            "quick_cmd": "./check %s quick" % pid,
            "thorough_cmd": "./check %s thorough" % pid,
            "evidence_file": "/verif/evidence/%s.json" % pid,
            "replay_cmd_template": "./check --replay {path}",
            "engine": "dst",
            "level_claimed": {"category": c["level"], "text": c["text"], "design_ref": c["ref"]},
            "level_note": c["note"],
            "technique": c["technique"],
        })
    na = [{"property_id": k, "reason": v} for k, v in sorted(NA.items())]
    na += [{"property_id": k, "reason": v} for k, v in sorted(PENDING.items()) if k not in CHECKS]
    m = {
        "version": 1,
        "setup_cmd": "python3 driver/build.py asan asanlite tsan plain",
        "hooks": {
            "guard": "IPHREEQC_VERIF",
            "enable": "-DIPHREEQC_VERIF on every clang command line generated by driver/build.py (ninja files under /verif/build/<variant>)",
            "baseline_off_cmd": "cmake --build /repo/_build -j16 && ctest --test-dir /repo/_build -j8 --timeout 900",
            "source_commits": HOOK_COMMITS,
            "add_only": True,
        },
        "engines": [{"name": "dst", "path": "/verif/sim + /verif/driver + /verif/harness",
                     "serves_properties": sorted(CHECKS),
                     "kind_free_text": "deterministic simulation with fault injection: plan executor linking the real library with simulated clock, file layer, allocator, abort injector and a seeded thread scheduler; python plan generators, reference models, oracles, shrinker"}],
        "checks": checks,
        "not_applicable": na,
        "notes": "See DESIGN.md. Known findings: known_findings.json. Seeded breaking changes: seeded/.",
    }
    json.dump(m, open(os.path.join(VERIF, "MANIFEST.json"), "w"), indent=1)


HOOK_COMMITS = ["f732ec2d"]
FIX_COMMITS = ["534640d9", "56cd6cbd", "16e4b988", "75d6d0dd", "8109e7ed", "63c515ea", "d473780a", "357c1413", "db73fc0e", "b50adf6f", "f225fd17", "090b168e", "7bc9a0c2", "eb497cc1", "837129af", "267d508a", "a9df45fa", "a31e1487", "30af7bac", "5e92f415", "21159cb4", "246de6e1", "9e3ed1c9", "1e9d5195", "5ace7f41", "d1d8a479", "29c72567", "5c8eb895", "d3925329", "8bb4d5fe", "461b9806", "911ee6eb", "c17b0160", "cd4d27a1", "f2f9a25a", "37a4ccbc", "2a75b0a1", "e8f37c00", "ae36e46f", "2aa352f2", "5cbc8866"]
if __name__ == "__main__":
    main()
