"""Generic check runner: seeded plan generation, worker pool, violation gate (fresh-process
replay twice), shrinking, replay files, known findings, evidence.

A harness module provides
    PROP, LEVEL, VARIANTS (list of build variants it needs), RULE (text)
    tiers: dict tier -> dict(runs=N, budget_s=T, workers=W)
    generate(rng, tier, index) -> plan (JSON-able dict; everything an execution needs)
    check_plan(ctx, plan) -> Report    (pure function of plan and code under test)
    shrink_candidates(plan) -> iterator of smaller plans (optional)
"""
import hashlib, importlib, json, multiprocessing, os, re, shutil, sys, time, traceback

sys.path.insert(0, os.path.dirname(os.path.abspath(__file__)))
import build as buildmod
from simlib import Executor, SplitMix, mix_seed, sanitizer_key, VERIF

DEFAULT_SEED = 20260928


class Report:
    def __init__(self):
        self.violations = []      # dicts: cls, key, detail
        self.stats = {}           # counters (summed over runs)
        self.distinct = []        # keys of distinct non-trivial cases covered by this run
        self.inconclusive = 0
        self.sample = None
        self.hashes = []          # schedule / event-log hashes (distinct interleavings measure)

    def viol(self, cls, key, detail):
        self.violations.append({"cls": cls, "key": key, "detail": detail[:4000]})

    def count(self, k, n=1):
        self.stats[k] = self.stats.get(k, 0) + n

    def to_dict(self):
        return {"violations": self.violations, "stats": self.stats, "distinct": self.distinct,
                "inconclusive": self.inconclusive, "sample": self.sample, "hashes": self.hashes}


class Ctx:
    """Execution context of one worker: one executor per variant, restarted when it dies."""

    def __init__(self, workdir, tag):
        self.workdir = workdir
        self.tag = tag
        self.ex = {}
        self.cache = {}

    def executor(self, variant, alt=""):
        """alt='B': a second process of the same variant started with ASLR off and a padded environment"""
        key = variant + alt
        if key not in self.ex:
            self.ex[key] = Executor(variant, self.workdir, "%s%s_%s" % (variant, alt, self.tag),
                                    aslr_off=(alt == "B"), env_pad=(3000 if alt == "B" else 0))
        return self.ex[key]

    def execute(self, variant, clients, alt="", **kw):
        return self.executor(variant, alt).run(clients, **kw)

    def close(self):
        for e in self.ex.values():
            e.stop()
        self.ex = {}

    def fresh(self):
        """forces the next execution into a newly started process"""
        self.close()


def crash_violation(rep, res, what=""):
    """Turns an executor death into a violation (sanitizer report, exit(), signal) or an inconclusive run (timeout)."""
    c = res.crash
    if not c:
        return False
    kind = c.get("kind")
    if kind == "timeout":
        rep.inconclusive += 1
        rep.count("hang_suspect")
        return True
    err = c.get("stderr", "")
    if kind == "sanitizer":
        key = sanitizer_key(err)
        rep.viol("crash:sanitizer", "crash:" + key, what + "\n" + err[-3900:])
    elif kind == "exit_called":
        rep.viol("crash:exit", "crash:exit:" + c.get("detail", ""), what + " " + c.get("detail", ""))
    elif kind == "fatal":
        d = c.get("detail", "")
        if d.startswith("deadlock"):
            rep.viol("deadlock", "deadlock", what + " " + d)
        else:
            rep.viol("crash:fatal", "crash:fatal:" + d[:60], what + " " + d)
    else:
        rep.viol("crash:" + str(kind), "crash:%s:%s" % (kind, c.get("code")), what + "\n" + err[-3000:])
    return True


# ------------------------------------------------------------------------------------------------
_W = {}


def _winit(modname, workdir, deadline, tier):
    _W["h"] = importlib.import_module(modname)
    _W["ctx"] = Ctx(workdir, "p%d" % os.getpid())
    _W["deadline"] = deadline
    _W["tier"] = tier


def _wrun(args):
    index, seed = args
    h, ctx = _W["h"], _W["ctx"]
    if time.time() > _W["deadline"]:
        return {"index": index, "seed": seed, "skipped": True}
    t0 = time.time()
    try:
        plan = h.generate(SplitMix(seed), _W["tier"], index)
        plan["seed"] = seed
        rep = h.check_plan(ctx, plan)
        d = rep.to_dict()
        d.update(index=index, seed=seed, wall=time.time() - t0)
        if rep.violations or index < 3:
            d["plan"] = plan
        return d
    except Exception:
        return {"index": index, "seed": seed, "harness_error": traceback.format_exc()}


def load_known():
    p = os.path.join(VERIF, "known_findings.json")
    if not os.path.exists(p):
        return []
    return json.load(open(p)).get("findings", [])


def match_known(prop, key, known):
    for k in known:
        if k.get("property") != prop or k.get("status") != "open":
            continue
        if re.search(k["match"], key):
            return k
    return None


def default_shrink_candidates(plan):
    """chunk removal over plan['ops'] (if present)"""
    ops = plan.get("ops")
    if not isinstance(ops, list):
        return
    n = len(ops)
    size = n // 2
    while size >= 1:
        i = 0
        while i < n:
            cand = dict(plan)
            cand["ops"] = ops[:i] + ops[i + size:]
            if len(cand["ops"]) < n:
                yield cand
            i += size
        size //= 2


def check_fresh(h, plan, workdir, tag):
    ctx = Ctx(workdir, tag)
    try:
        return h.check_plan(ctx, plan)
    finally:
        ctx.close()


def shrink(h, plan, cls, workdir, budget_runs=150, budget_s=120):
    t0 = time.time()
    runs = 0
    cur = plan
    gen = getattr(h, "shrink_candidates", None)
    improved = True
    ctx = Ctx(workdir, "shrink")
    try:
        while improved and runs < budget_runs and time.time() - t0 < budget_s:
            improved = False
            cands = list(default_shrink_candidates(cur))
            if gen:
                cands = list(gen(cur)) + cands
            for cand in cands:
                if runs >= budget_runs or time.time() - t0 > budget_s:
                    break
                runs += 1
                try:
                    rep = h.check_plan(ctx, cand)
                except Exception:
                    continue
                if any(v["cls"] == cls for v in rep.violations):
                    cur = cand
                    improved = True
                    break
    finally:
        ctx.close()
    return cur, runs


def plan_size(plan):
    return len(json.dumps(plan))


def run_check(modname, tier, replay=None):
    h = importlib.import_module(modname)
    prop = h.PROP
    seed = int(os.environ.get("VERIF_SEED", DEFAULT_SEED))
    t0 = time.time()
    for v in h.VARIANTS:
        buildmod.build(v)
    build_s = time.time() - t0
    workdir = os.path.join(VERIF, "work", "%s_%d" % (prop, os.getpid()))
    os.makedirs(workdir, exist_ok=True)
    known = load_known()
    try:
        if replay:
            return do_replay(h, replay, workdir, known)
        return do_run(h, modname, tier, seed, workdir, known, build_s, t0)
    finally:
        shutil.rmtree(workdir, ignore_errors=True)


def do_replay(h, path, workdir, known):
    doc = json.load(open(path))
    plan = doc["plan"]
    cls = doc.get("violation", {}).get("cls")
    rep = check_fresh(h, plan, workdir, "replay")
    hit = [v for v in rep.violations if cls is None or v["cls"] == cls]
    if hit:
        v = hit[0]
        print("replayed: %s %s" % (v["cls"], v["key"]))
        print(v["detail"][:2000])
        k = match_known(h.PROP, v["key"], known)
        if k:
            print("KNOWN-FINDING: property=%s %s" % (h.PROP, k["what"]))
            return 0
        print("VIOLATION property=%s replay=%s" % (h.PROP, path))
        return 1
    print("replay of %s: violation did not recur" % path)
    return 0


def do_run(h, modname, tier, seed, workdir, known, build_s, t0):
    prop = h.PROP
    cfg = h.tiers[tier]
    nruns = int(os.environ.get("VERIF_RUNS", cfg["runs"]))
    workers = int(os.environ.get("VERIF_WORKERS", cfg.get("workers", 16)))
    deadline = time.time() + cfg["budget_s"]
    seeds = [(i, mix_seed(seed, prop, i)) for i in range(nruns)]
    extra = getattr(h, "fixed_cases", None)
    reports = []
    pool = multiprocessing.Pool(workers, _winit, (modname, workdir, deadline, tier))
    try:
        for d in pool.imap_unordered(_wrun, seeds, chunksize=1):
            reports.append(d)
    finally:
        pool.close()
        pool.join()
    reports.sort(key=lambda d: d["index"])
    herr = [d for d in reports if "harness_error" in d]
    if herr:
        sys.stderr.write(herr[0]["harness_error"])
        print("HARNESS ERROR in %d runs (first shown on stderr); no verdict" % len(herr))
        return 2
    done = [d for d in reports if not d.get("skipped")]
    stats, distinct, hashes = {}, set(), set()
    inconclusive = 0
    for d in done:
        for k, v in d["stats"].items():
            stats[k] = stats.get(k, 0) + v
        distinct.update(d["distinct"])
        hashes.update(d.get("hashes", []))
        inconclusive += d["inconclusive"]
    samples = [d.get("sample") for d in done[:3] if d.get("sample")]

    # ---- violations: group by key, gate, shrink, report -------------------------------------
    groups = {}
    for d in done:
        for v in d["violations"]:
            groups.setdefault((v["cls"], v["key"]), []).append((d, v))
    exit_code = 0
    known_hit, new_viol = {}, []
    os.makedirs(os.path.join(VERIF, "replays"), exist_ok=True)
    nondeterministic = 0
    gate_budget = time.time() + 420
    nshrunk = 0
    for (cls, key), lst in sorted(groups.items()):
        k = match_known(prop, key, known)
        if k:
            known_hit.setdefault(k["id"], [k, 0])[1] += len(lst)
            continue
        d, v = min(lst, key=lambda t: plan_size(t[0]["plan"]))
        plan = d["plan"]
        if time.time() > gate_budget:
            new_viol.append((cls, key, v, plan, None))
            continue
        # gate (a): twice more in fresh processes
        ok = 0
        unrepeatable_ok = getattr(h, "UNREPEATABLE_CLASSES", ())
        for j in range(2):
            rep = check_fresh(h, plan, workdir, "gate%d" % j)
            if any(x["cls"] == cls for x in rep.violations):
                ok += 1
        if ok < 2 and cls not in unrepeatable_ok:
            nondeterministic += 1
            print("UNREPEATABLE alarm dropped (harness nondeterminism suspected): %s %s reproduced %d/2" % (cls, key, ok))
            continue
        nshrunk += 1
        if nshrunk > 3:      # the first three new violation keys are minimised; further ones are reported as found
            new_viol.append((cls, key, v, plan, 0))
            continue
        small, nsh = shrink(h, plan, cls, workdir, budget_s=90)
        rep = check_fresh(h, small, workdir, "final")
        vv = [x for x in rep.violations if x["cls"] == cls]
        if not vv:
            small, vv = plan, [v]
        # a shrunk plan may have moved to a different key of the same class that is a known finding
        k2 = match_known(prop, vv[0]["key"], known)
        if k2 and vv[0]["key"] != key:
            small, vv = plan, [v]
        new_viol.append((cls, key, vv[0], small, nsh))
    for kid, (k, n) in sorted(known_hit.items()):
        print("KNOWN-FINDING: property=%s %s [%s; %d runs]" % (prop, k["what"], kid, n))
    for cls, key, v, plan, nsh in new_viol:
        name = "%s_%s_%s.json" % (prop, re.sub(r"[^A-Za-z0-9]+", "_", key)[:60], hashlib.sha1(json.dumps(plan, sort_keys=True).encode()).hexdigest()[:10])
        path = os.path.join(VERIF, "replays", name)
        json.dump({"property": prop, "violation": v, "plan": plan, "shrink_runs": nsh, "seed": plan.get("seed"),
                   "replay": "./check --replay %s" % path}, open(path, "w"), indent=1)
        print("violation: %s | %s" % (cls, key))
        print(v["detail"][:1500])
        print("VIOLATION property=%s replay=%s" % (prop, path))
        exit_code = 1
    if nondeterministic and exit_code == 0:
        exit_code = 2

    wall = time.time() - t0
    cov = {
        "evaluations": len(done),
        "distinct_nontrivial": len(distinct),
        "rule": h.RULE,
        "samples": samples or [{"note": "no sample recorded"}],
        "exhaustive": False,
        "runs_per_hour": int(len(done) / max(wall - build_s, 1e-9) * 3600),
        "seeds_per_hour": int(len(done) / max(wall - build_s, 1e-9) * 3600),
        "skipped_for_time": len(reports) - len(done),
        "inconclusive": inconclusive,
        "distinct_schedule_hashes": len(hashes),
        "counters": dict(sorted(stats.items())),
        "faults_injected": {k.split(":", 1)[1] if ":" in k else k: v for k, v in sorted(stats.items()) if k.startswith(("fault_fired", "buggify_fired", "abort_inside"))},
        "simulated_time": "clock() is simulated per client thread (frozen, or advanced by a fixed tick / one jump of +-2^31 per call of clock(), C06); the library has no timer or deadline, so no simulated time elapses beyond clock() calls",
        "components": getattr(h, "COMPONENTS", {}),
        "known_findings_hit": {kid: n for kid, (k, n) in known_hit.items()},
        "build_s": round(build_s, 1),
        "slowest_runs": [{"index": d["index"], "wall_s": round(d.get("wall", 0), 1)} for d in sorted(done, key=lambda d: -d.get("wall", 0))[:5]],
        "workers": workers,
    }
    zero = [p for p in getattr(h, "REACH_PROBES", []) if stats.get(p, 0) == 0]
    if zero:
        cov["reach_probes_at_zero"] = zero
    ev = {"property_id": prop, "tier": tier, "seed": seed, "level": h.LEVEL, "coverage": cov,
          "assumptions": getattr(h, "ASSUMPTIONS", []), "wall_s": round(wall, 1), "violations": len(new_viol)}
    os.makedirs(os.path.join(VERIF, "evidence"), exist_ok=True)
    json.dump(ev, open(os.path.join(VERIF, "evidence", prop + ".json"), "w"), indent=1)
    print("%s %s: %d runs (%d skipped for time), %d distinct non-trivial, %d inconclusive, %d violations, %d known findings, %.0f s"
          % (prop, tier, len(done), len(reports) - len(done), len(distinct), inconclusive, len(new_viol), len(known_hit), wall))
    return exit_code
