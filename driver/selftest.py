#!/usr/bin/env python3
"""./check selftest-determinism [modules...] [--seeds N]

Proves on a sample that an execution is a pure function of its plan: for every harness, N plans are generated
from N seeds and checked in separate processes with 1, 4 and 16 workers (different process histories, different
interleaving of plans over executors, ASLR on); the digest of each plan's report (violation classes and keys,
counters, distinct keys, schedule hashes) must be identical across the three runs.  Plans that hit a wall-clock
watchdog (inconclusive) are excluded and counted."""
import hashlib, importlib, json, multiprocessing, os, subprocess, sys, time

HERE = os.path.dirname(os.path.abspath(__file__))
VERIF = os.path.dirname(HERE)
sys.path.insert(0, HERE)
sys.path.insert(0, os.path.join(VERIF, "harness"))
MODS = ["c02", "c04", "c05", "c06", "c07", "c08", "c09", "c10", "c13", "c14"]


def digest(d):
    core = {"v": sorted((v["cls"], v["key"]) for v in d["violations"]), "s": d["stats"], "d": sorted(d["distinct"]), "h": d.get("hashes", []), "i": d["inconclusive"]}
    return hashlib.sha1(json.dumps(core, sort_keys=True).encode()).hexdigest()[:16], d["inconclusive"]


def worker_main(mod, n, workers, out):
    import runner
    from simlib import mix_seed
    h = importlib.import_module(mod)
    for v in h.VARIANTS:
        runner.buildmod.build(v)
    wd = os.path.join(VERIF, "work", "selftest_%s_%d" % (mod, os.getpid()))
    os.makedirs(wd, exist_ok=True)
    seeds = [(i, mix_seed(777, h.PROP, i)) for i in range(n)]
    pool = multiprocessing.Pool(workers, runner._winit, (mod, wd, time.time() + 3600, "quick"))
    res = {}
    try:
        for d in pool.imap_unordered(runner._wrun, seeds, chunksize=1):
            if "harness_error" in d:
                res[d["index"]] = ("HARNESS_ERROR", 0)
            else:
                res[d["index"]] = digest(d)
    finally:
        pool.close()
        pool.join()
    import shutil
    shutil.rmtree(wd, ignore_errors=True)
    json.dump(res, open(out, "w"))


def determinism(args):
    n = 40
    mods = []
    it = iter(args)
    for a in it:
        if a == "--seeds":
            n = int(next(it))
        else:
            mods.append(a.lower())
    mods = mods or MODS
    os.makedirs(os.path.join(VERIF, "work"), exist_ok=True)
    bad = 0
    summary = {}
    for mod in mods:
        outs = []
        for w in (1, 4, 16):
            out = os.path.join(VERIF, "work", "selftest_%s_%d.json" % (mod, w))
            subprocess.run([sys.executable, os.path.abspath(__file__), "worker", mod, str(n), str(w), out], check=True)
            outs.append(json.load(open(out)))
            os.unlink(out)
        diverged, excluded = [], 0
        for i in sorted(outs[0], key=int):
            ds = [o[i] for o in outs]
            if any(d[1] for d in ds):
                excluded += 1
                continue
            if len(set(d[0] for d in ds)) != 1:
                diverged.append(i)
        summary[mod] = {"plans": n, "excluded_for_watchdog": excluded, "diverged": diverged}
        print("%s: %d plans x 3 runs (1, 4, 16 workers): %d diverged, %d excluded (watchdog)" % (mod, n, len(diverged), excluded))
        bad += len(diverged)
    path = os.path.join(VERIF, "evidence", "selftest_determinism.json")
    try:
        merged = json.load(open(path))
    except Exception:
        merged = {}
    merged.update(summary)          # a partial run (some modules only) keeps the entries of the others
    json.dump(merged, open(path, "w"), indent=1, sort_keys=True)
    return 1 if bad else 0


if __name__ == "__main__":
    if len(sys.argv) > 1 and sys.argv[1] == "worker":
        worker_main(sys.argv[2], int(sys.argv[3]), int(sys.argv[4]), sys.argv[5])
    else:
        sys.exit(determinism(sys.argv[1:]))
