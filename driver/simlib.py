"""Wire protocol to the plan executor (sim/executor.cpp) and small helpers shared by all harnesses.

Strings cross the wire as bytes; on the Python side they are latin-1 `str` so that any byte
sequence survives unchanged and replay files stay plain JSON."""
import json, os, select, signal, subprocess, time

VERIF = os.path.dirname(os.path.dirname(os.path.abspath(__file__)))
REPO = os.environ.get("VERIF_REPO", "/repo")

FF = {"open_fail": 1, "write_enospc": 2, "write_short": 3, "eintr": 4, "read_short": 5, "read_eio": 6, "close_fail": 7, "read_eof": 8}
FF_NAMES = {v: k for k, v in FF.items()}
NULLSTR = "\x01NULL"


class SplitMix:
    """The one PRNG: every choice of a run derives from its seed through this generator."""

    def __init__(self, seed):
        self.s = seed & 0xFFFFFFFFFFFFFFFF

    def next(self):
        self.s = (self.s + 0x9E3779B97F4A7C15) & 0xFFFFFFFFFFFFFFFF
        z = self.s
        z = ((z ^ (z >> 30)) * 0xBF58476D1CE4E5B9) & 0xFFFFFFFFFFFFFFFF
        z = ((z ^ (z >> 27)) * 0x94D049BB133111EB) & 0xFFFFFFFFFFFFFFFF
        return z ^ (z >> 31)

    def below(self, n):
        return self.next() % n if n > 0 else 0

    def range(self, a, b):
        return a + self.below(b - a + 1)

    def chance(self, pct):
        return self.below(100) < pct

    def choice(self, seq):
        return seq[self.below(len(seq))]

    def uniform(self):
        return (self.next() >> 11) / float(1 << 53)

    def shuffle(self, lst):
        for i in range(len(lst) - 1, 0, -1):
            j = self.below(i + 1)
            lst[i], lst[j] = lst[j], lst[i]

    def sample(self, seq, k):
        l = list(seq)
        self.shuffle(l)
        return l[:k]

    def fork(self, tag):
        h = 1469598103934665603
        for ch in str(tag).encode():
            h = ((h ^ ch) * 1099511628211) & 0xFFFFFFFFFFFFFFFF
        return SplitMix(self.next() ^ h)


def mix_seed(base, prop, i):
    r = SplitMix((base * 0x9E3779B97F4A7C15 + i * 0xD1B54A32D192ED03) & 0xFFFFFFFFFFFFFFFF)
    for ch in prop.encode():
        r.s = (r.s ^ ch) * 1099511628211 & 0xFFFFFFFFFFFFFFFF
    return r.next()


class OpResult:
    __slots__ = ("client", "idx", "s0", "s1", "f")

    def __init__(self, client, idx, s0, s1, f):
        self.client, self.idx, self.s0, self.s1, self.f = client, idx, s0, s1, f

    def kv(self):
        return dict(zip(self.f[0::2], self.f[1::2]))

    def ctr(self):
        for x in self.f:
            if x.startswith("ctr "):
                return {k: int(v) for k, v in (t.split("=") for t in x[4:].split())}
        return {}

    def exc(self):
        for x in self.f:
            if x.startswith("EXC:"):
                return x
        return None


class ExecResult:
    def __init__(self):
        self.ops = {}        # client -> list[OpResult]
        self.events = ""
        self.done = {}
        self.crash = None    # None or dict(kind, code, detail)
        self.wall = 0.0

    def client(self, c=0):
        return self.ops.get(c, [])


class Executor:
    """One executor process; plans are executed one after the other in-process."""

    def __init__(self, variant, workdir, tag="w", aslr_off=False, env_pad=0):
        self.variant = variant
        self.aslr_off, self.env_pad = aslr_off, env_pad
        self.max_id = -1          # largest instance id handed out so far by this process (reset on restart)
        self.exe = os.path.join(VERIF, "build", variant, "executor")
        self.workdir = workdir
        os.makedirs(workdir, exist_ok=True)
        self.sandbox = os.path.join(workdir, "sb_" + tag)
        self.errpath = os.path.join(workdir, "stderr_" + tag + ".log")
        self.p = None
        self.plans_run = 0
        self.restarts = 0

    def start(self):
        self.stop()
        self.errf = open(self.errpath, "wb")
        env = dict(os.environ)
        env.pop("ASAN_OPTIONS", None)
        env.pop("TSAN_OPTIONS", None)
        env["LC_ALL"] = "C"
        if self.env_pad:
            env["VERIF_ENV_PAD"] = "x" * self.env_pad     # shifts the initial stack / environment layout
        argv = [self.exe]
        if self.aslr_off:
            argv = ["setarch", os.uname().machine, "-R", self.exe]
        self.max_id = -1
        self.p = subprocess.Popen(argv, stdin=subprocess.PIPE, stdout=subprocess.PIPE, stderr=self.errf,
                                  cwd=self.workdir, env=env, bufsize=0)
        self.buf = b""
        self.restarts += 1

    def stop(self):
        if self.p is not None:
            try:
                self.p.kill()
            except Exception:
                pass
            try:
                self.p.wait(timeout=5)
            except Exception:
                pass
            for f in (self.p.stdin, self.p.stdout):
                try:
                    f.close()
                except Exception:
                    pass
            self.p = None
            try:
                self.errf.close()
            except Exception:
                pass

    # -- low level reads with deadline ---------------------------------------------------------
    def _fill(self, deadline):
        t = deadline - time.time()
        if t <= 0:
            raise TimeoutError()
        r, _, _ = select.select([self.p.stdout], [], [], t)
        if not r:
            raise TimeoutError()
        d = os.read(self.p.stdout.fileno(), 1 << 20)
        if not d:
            raise EOFError()
        self.buf += d

    def _send(self, data, deadline):
        """writes the plan with the same deadline as the reads: an executor that stops reading (it never does by itself; seen once
        with a hang inside the ThreadSanitizer runtime) must not block the worker for ever"""
        fd = self.p.stdin.fileno()
        os.set_blocking(fd, False)
        view = memoryview(data)
        off = 0
        try:
            while off < len(view):
                t = deadline - time.time()
                if t <= 0:
                    raise TimeoutError()
                _, w, _ = select.select([], [fd], [], t)
                if not w:
                    raise TimeoutError()
                try:
                    off += os.write(fd, view[off:off + (1 << 16)])
                except BlockingIOError:
                    continue
        finally:
            try:
                os.set_blocking(fd, True)
            except OSError:
                pass

    def _line(self, deadline):
        while True:
            i = self.buf.find(b"\n")
            if i >= 0:
                l = self.buf[:i]
                self.buf = self.buf[i + 1:]
                return l
            self._fill(deadline)

    def _bytes(self, n, deadline):
        while len(self.buf) < n + 1:
            self._fill(deadline)
        d = self.buf[:n]
        self.buf = self.buf[n + 1:]
        return d

    @staticmethod
    def encode(clients, nclients=None, preempt=0, max_steps=0, seed=0, plimit=-1, sandbox="", choices=None):
        out = []
        n = nclients if nclients is not None else len(clients)
        out.append(b"PLAN %d %d %d %d %d %s\n" % (n, preempt, max_steps, seed & 0xFFFFFFFFFFFFFFFF, plimit, sandbox.encode()))
        if choices:
            out.append(b"S " + b" ".join(b"%d" % c for c in choices) + b"\n")
        for ci, ops in enumerate(clients):
            out.append(b"C %d\n" % ci)
            for op in ops:
                out.append(b"O %d\n" % len(op))
                for a in op:
                    b = a if isinstance(a, bytes) else str(a).encode("latin-1", "replace")
                    out.append(b"%d\n" % len(b))
                    out.append(b)
                    out.append(b"\n")
        out.append(b"E\n")
        return b"".join(out)

    def run(self, clients, preempt=0, max_steps=0, seed=0, plimit=-1, timeout=120.0, choices=None):
        """clients: list (per client) of ops; an op is a list of str.  Returns ExecResult."""
        if self.p is None or self.p.poll() is not None:
            self.start()
        res = ExecResult()
        t0 = time.time()
        deadline = t0 + timeout
        data = self.encode(clients, None, preempt, max_steps, seed, plimit, self.sandbox, choices)
        try:
            # write in a way that cannot deadlock with a full stdout pipe: the executor reads the whole
            # plan before producing output
            self._send(data, deadline)
            while True:
                l = self._line(deadline)
                if l.startswith(b"R "):
                    _, c, i, s0, s1, n = l.split()
                    f = [self._bytes(int(self._line(deadline)), deadline).decode("latin-1") for _ in range(int(n))]
                    res.ops.setdefault(int(c), []).append(OpResult(int(c), int(i), int(s0), int(s1), f))
                elif l.startswith(b"EV "):
                    res.events = self._bytes(int(l[3:]), deadline).decode("latin-1")
                elif l.startswith(b"DONE "):
                    res.done = dict(t.split("=", 1) for t in l[5:].decode().split())
                    break
                elif l.startswith(b"FATAL "):
                    res.crash = {"kind": "fatal", "detail": l[6:].decode("latin-1", "replace")}
                    self._reap(res)
                    break
                elif l == b"":
                    continue
                else:
                    # stray output (e.g. Output*String functions write to stdout): ignored
                    continue
        except TimeoutError:
            res.crash = {"kind": "timeout", "detail": "no answer within %.0f s" % timeout}
            self.stop()
        except (EOFError, BrokenPipeError, OSError):
            res.crash = {"kind": "died", "detail": ""}
            self._reap(res)
        res.wall = time.time() - t0
        self.plans_run += 1
        return res

    def _reap(self, res):
        code = None
        try:
            code = self.p.wait(timeout=10)
        except Exception:
            pass
        self.stop()
        res.crash["code"] = code
        try:
            with open(self.errpath, "rb") as f:
                f.seek(0, 2)
                sz = f.tell()
                f.seek(max(0, sz - 24000))
                res.crash["stderr"] = f.read().decode("latin-1", "replace")
        except Exception:
            res.crash["stderr"] = ""
        if code == 77:
            res.crash["kind"] = "sanitizer"
        elif code == 78:
            res.crash["kind"] = "exit_called"
        elif code == 79 and res.crash.get("kind") == "fatal":
            pass
        elif code is not None and code < 0:
            res.crash["kind"] = "signal"

    def stderr_tail(self, n=4000):
        try:
            self.errf.flush()
        except Exception:
            pass
        try:
            with open(self.errpath, "rb") as f:
                f.seek(0, 2)
                sz = f.tell()
                f.seek(max(0, sz - n))
                return f.read().decode("latin-1", "replace")
        except Exception:
            return ""

    def stderr_size(self):
        try:
            return os.path.getsize(self.errpath)
        except Exception:
            return 0


def read_text(path):
    with open(path, "rb") as f:
        return f.read().decode("latin-1")


def call(binding, target, fn, *args):
    return ["call", binding, target, fn] + [str(a) for a in args]


def sanitizer_key(stderr):
    """kind + top frame inside /repo of a sanitizer report (the call-site key of a finding)."""
    import re
    kind = "unknown"
    m = re.search(r"ERROR: AddressSanitizer: ([\w-]+)", stderr) or re.search(r"SUMMARY: AddressSanitizer: ([\w-]+)", stderr)
    if m:
        kind = "asan:" + m.group(1)
    else:
        m = re.search(r"runtime error: ([^\n]{0,60})", stderr)
        if m:
            kind = "ubsan:" + re.sub(r"0x[0-9a-f]+|\d+", "N", m.group(1)).strip()
    frame = "?"
    for m in re.finditer(r"#\d+ 0x[0-9a-f]+ in ([^\n]+?) (/repo/[^\s:]+)", stderr):
        frame = os.path.basename(m.group(2)) + ":" + m.group(1).split("(")[0]
        break
    return kind + "@" + frame


def tsan_key(stderr):
    """kind + first frame inside /repo of the last ThreadSanitizer report in a stderr tail"""
    import re
    i = stderr.rfind("WARNING: ThreadSanitizer:")
    t = stderr[i:] if i >= 0 else stderr
    m = re.search(r"WARNING: ThreadSanitizer: ([^\n(]+)", t)
    kind = m.group(1).strip() if m else "report"
    fm = re.search(r"#\d+ (\S+) (/repo/[^\s:]+)", t)
    return kind + "@" + ((os.path.basename(fm.group(2)) + ":" + fm.group(1).split("(")[0]) if fm else "?")
