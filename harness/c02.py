"""C02 — closed-system conservation of elements and charge over histories of reaction steps.

One instance; a plan is a history of steps over a small world of cells 1..4: definitions (solution, equilibrium phases,
exchanger, surface with implicit / explicit diffuse layer, fixed-pressure or fixed-volume gas phase, solid solution, kinetic
reactant; 30 % of the plans on another database: pitzer.dat (solver loop model_pitzer), sit.dat (model_sit), wateq4f.dat), batch reactions  USE ... / REACTION / SAVE ... n,  RUN_CELLS with a time step, MIX, and chaining of one step's
products into the next.  DUMP -all is read before and after every step by an independent RAW reader; a formula parser turns
phase, gas, solid-solution and kinetic formulas (a hand table transcribed from phreeqc.dat and the plan itself, not the
engine) into element vectors.

Oracle = ledger:  inventory_after(e) = sum_i f_i * inventory_before_i(e) + sum_reactants nu_e * amount  for every element
including H and O and for charge, relative 1e-6 of the element's system inventory (inventories below 1e-7 mol skipped and
counted); every entity the step did not name is textually unchanged; no amount is negative.

Fault configurations: (a) the solver's retry ladder is forced through the guarded hook H1 (a converged attempt is reported as
failed / an attempt is skipped, for the first 1-6 attempts of a seeded subset of solves), (b) KNOBS -iterations is drawn small so
that first attempts genuinely fail and later ladder rungs converge, (c) random legal KNOBS (step sizes, iteration limit,
tolerances, diagonal scaling, delayed mass-of-water equation, numerical derivatives) drawn per run.  Same ledger: a converged retry is a completed calculation."""
import hashlib, json, math, re
from common import *
from runner import Report, crash_violation
import raw

PROP = "C02"
LEVEL = "exploration"
VARIANTS = ["asan"]
RULE = ("histories of 3-10 steps over cells 1..4 with seeded reactant sets, amounts, step counts, incremental or cumulative steps and SAVE/USE chaining; every third plan "
        "forces the retry ladder through hook H1 (modes post and pre), every fourth draws KNOBS -iterations from {8..20}, every other fourth draws a whole set of legal KNOBS; 30 % of the plans run on pitzer.dat, sit.dat or wateq4f.dat. Non-trivial = a step with a non-zero change of at "
        "least one element inventory of an entity; distinct = distinct (reactant kinds in the stepped cell, step kind, chained?, fault configuration).")
COMPONENTS = {"real": "whole IPhreeqc library from /repo's working tree (ASan+UBSan) incl. the solver's retry ladder (set_and_run_wrapper)",
              "stub": "hook H1 callback (guarded by IPHREEQC_VERIF) deciding which attempts are reported as failed; clock() frozen"}
ASSUMPTIONS = ["the ledger reads the engine's own RAW dump: a defect that corrupts a stored total and its dump consistently is invisible (C10 covers writer/reader asymmetry)",
               "formulas of the phases used are transcribed from phreeqc.dat by hand", "steps that end in an error are outside the statement and end the history (counted)"]
REACH_PROBES = ["steps_checked", "elements_checked", "charge_checked", "retry_ladder_entered", "buggify_fired", "steps_with_change", "kinds:exchange", "kinds:surface", "kinds:gas_phase", "kinds:solid_solutions", "kinds:kinetics", "mix_steps", "run_cells_steps"]
tiers = {"quick": dict(runs=2400, budget_s=240, workers=16), "thorough": dict(runs=30000, budget_s=1700, workers=16)}

FORMULA = {"Calcite": "CaCO3", "Gypsum": "CaSO4:2H2O", "Dolomite": "CaMg(CO3)2", "Halite": "NaCl", "CO2(g)": "CO2", "N2(g)": "N2", "O2(g)": "O2", "Strontianite": "SrCO3", "Aragonite": "CaCO3",
           "Anhydrite": "CaSO4", "Sylvite": "KCl", "Fix_H+": "H", "H2O(g)": "H2O", "CH4(g)": "CH4", "Witherite": "BaCO3", "Barite": "BaSO4", "Celestite": "SrSO4"}
TOK = re.compile(r"([A-Z][a-z]?)|(\d+\.?\d*|\.\d+)|(\()|(\))|(:)")


def parse_formula(f):
    """'CaMg(CO3)2', 'CaSO4:2H2O', 'Ca0.5Na' -> {element: count}; charges are not part of these formulas"""
    total = {}
    for part_i, part in enumerate(f.split(":")):
        mult = 1.0
        m = re.match(r"^(\d+\.?\d*)(.*)$", part) if part_i > 0 else None
        if m:
            mult, part = float(m.group(1)), m.group(2)
        stack = [{}]
        i = 0
        toks = TOK.findall(part)
        j = 0
        while j < len(toks):
            el, num, lp, rp, _ = toks[j]
            if el:
                cnt = 1.0
                if j + 1 < len(toks) and toks[j + 1][1]:
                    cnt = float(toks[j + 1][1])
                    j += 1
                stack[-1][el] = stack[-1].get(el, 0.0) + cnt
            elif lp:
                stack.append({})
            elif rp:
                grp = stack.pop()
                cnt = 1.0
                if j + 1 < len(toks) and toks[j + 1][1]:
                    cnt = float(toks[j + 1][1])
                    j += 1
                for k, v in grp.items():
                    stack[-1][k] = stack[-1].get(k, 0.0) + v * cnt
            j += 1
        for k, v in stack[0].items():
            total[k] = total.get(k, 0.0) + v * mult
    return total


def add(inv, other, f=1.0):
    for k, v in other.items():
        inv[k] = inv.get(k, 0.0) + f * v


def strip_valence(name):
    return name.split("(")[0]


def inventory(ent):
    """element -> moles (and 'charge') held by one RAW entity"""
    t = ent.tree()
    inv = {}
    k = ent.kind
    if k == "solution":
        for el, v in raw.namedouble(raw.child(t, "-totals")).items():
            e = strip_valence(el)
            if e in ("H", "O"):
                continue              # H(0), O(0) are parts of total_h / total_o
            inv[e] = inv.get(e, 0.0) + v
        inv["H"] = raw.fnum(raw.child(t, "-total_h"))
        inv["O"] = raw.fnum(raw.child(t, "-total_o"))
        inv["charge"] = raw.fnum(raw.child(t, "-cb"))
    elif k == "equilibrium_phases":
        for c in raw.children(t, "-component"):
            name = c[2].split()[0]
            moles = raw.fnum(raw.child(c[3], "-moles"))
            if moles < -1e-15:
                inv.setdefault("!negative", []).append("%s %r" % (name, moles))
            add(inv, parse_formula(FORMULA[name]), moles)
    elif k == "exchange":
        for c in raw.children(t, "-component"):
            add(inv, raw.namedouble(raw.child(c[3], "-totals")))
            inv["charge"] = inv.get("charge", 0.0) + raw.fnum(raw.child(c[3], "-charge_balance"))
    elif k == "surface":
        dl = int(raw.fnum(raw.child(t, "-dl_type")))
        for c in raw.children(t, "-component"):
            add(inv, raw.namedouble(raw.child(c[3], "-totals")))
            if dl == 0:
                inv["charge"] = inv.get("charge", 0.0) + raw.fnum(raw.child(c[3], "-charge_balance"))
        for c in raw.children(t, "-charge_component"):
            add(inv, raw.namedouble(raw.child(c[3], "-diffuse_layer_totals")))
            if dl != 0:
                inv["charge"] = inv.get("charge", 0.0) + raw.fnum(raw.child(c[3], "-charge_balance"))
    elif k == "gas_phase":
        for c in raw.children(t, "-component"):
            name = c[2].split()[0]
            moles = raw.fnum(raw.child(c[3], "-moles"))
            if moles < -1e-15:
                inv.setdefault("!negative", []).append("%s %r" % (name, moles))
            add(inv, parse_formula(FORMULA[name]), moles)
    elif k == "solid_solutions":
        for ss in raw.children(t, "-solid_solution"):
            for c in raw.children(ss[3], "-component"):
                name = c[2].split()[0]
                moles = raw.fnum(raw.child(c[3], "-moles"))
                if moles < -1e-15:
                    inv.setdefault("!negative", []).append("%s %r" % (name, moles))
                add(inv, parse_formula(FORMULA[name]), moles)
    elif k == "kinetics":
        for c in raw.children(t, "-component"):
            m = raw.fnum(raw.child(c[3], "-m"))
            if m < -1e-15:
                inv.setdefault("!negative", []).append("%s %r" % (c[2], m))
            for fm, coef in raw.namedouble(raw.child(c[3], "-namecoef")).items():
                add(inv, parse_formula(FORMULA.get(fm, fm)), m * coef)
    inv.pop("X", None) if False else None
    return inv


# database profiles: which gases / solid-solution end members / reactants exist.  pitzer.dat has no N, no redox couple and no
# Strontianite; its solver loop (model_pitzer) is a separate copy of model()
DBPROF = {"phreeqc": {"file": PHREEQC_DAT, "ss": ("Calcite", "Strontianite"), "n2": True, "o2": True, "drop": ()},
          "pitzer": {"file": os.path.join(DBDIR, "pitzer.dat"), "ss": ("Gypsum", "Celestite"), "n2": False, "o2": False, "drop": ("O2", "CH2O")},
          # sit.dat (solver loop model_sit) and wateq4f.dat define no exchanger X and no surface Hfo; with sit.dat a gas phase holding N2/O2
          # ends in 'S has not converged' or runs for minutes (reported errors, nothing to judge): no gas phases there
          "sit": {"file": os.path.join(DBDIR, "sit.dat"), "ss": ("Calcite", "Strontianite"), "n2": True, "o2": True, "drop": ("O2", "CH2O"), "nokinds": ("exchange", "surface", "gas_phase")},
          "wateq4f": {"file": os.path.join(DBDIR, "wateq4f.dat"), "ss": ("Calcite", "Strontianite"), "n2": True, "o2": True, "drop": (), "nokinds": ("exchange", "surface")}}
STATE_KINDS = ["solution", "equilibrium_phases", "exchange", "surface", "gas_phase", "solid_solutions", "kinetics"]
SAVABLE = ["equilibrium_phases", "exchange", "surface", "gas_phase", "solid_solutions"]
REACTANTS = {"NaCl": "NaCl", "CaCl2": "CaCl2", "HCl": "HCl", "NaOH": "NaOH", "CO2": "CO2", "CaCO3": "CaCO3", "SrCl2": "SrCl2", "Na2SO4": "Na2SO4", "H2O": "H2O", "MgCl2": "MgCl2", "O2": "O2", "CH2O": "CH2O"}
SURF2 = ("SURFACE_MASTER_SPECIES\n Su_ Su_OH\nSURFACE_SPECIES\n Su_OH = Su_OH\n log_k 0\n Su_OH + H+ = Su_OH2+\n log_k 6.5\n Su_OH = Su_O- + H+\n log_k -8.5\n"
         " Su_OH + Ca+2 = Su_OCa+ + H+\n log_k -5.0\nEND\n")
RATES = "RATES\n lin\n -start\n10 SAVE parm(1) * TIME\n -end\n first\n -start\n10 SAVE parm(1) * M * TIME\n -end\nEND\n"


def gen_cell(rng, n):
    d = {"n": n, "sol": {"Na": rng.choice([1, 5, 20]), "Cl": rng.choice([1, 5, 20]), "Ca": rng.choice([0, 0.5, 2]), "C": rng.choice([0, 1, 3]), "S(6)": rng.choice([0, 0.3]), "Sr": rng.choice([0, 0, 0.05]),
                          "pH": rng.choice([5.5, 7, 8.5]), "water": rng.choice([1, 1, 0.5, 2])}, "kinds": {}}
    if rng.chance(45):
        d["kinds"]["equilibrium_phases"] = [[p, rng.choice([0, 0, -1.5]) if p == "CO2(g)" else 0, rng.choice([0, 0.001, 0.01, 1])] for p in rng.sample(["Calcite", "Gypsum", "Dolomite", "CO2(g)"], rng.range(1, 2))]
    if rng.chance(30):
        d["kinds"]["exchange"] = rng.choice([0.001, 0.02])
    if rng.chance(30):
        d["kinds"]["surface"] = rng.choice(["plain", "plain", "diffuse", "donnan", "no_edl", "donnan2", "donnan2"])
    if rng.chance(25):
        d["kinds"]["gas_phase"] = {"type": rng.choice(["fixed_pressure", "fixed_volume"]), "co2": rng.choice([0, 0.001, 0.05]), "n2": rng.choice([0, 0.5, 0.5]), "o2": rng.choice([0, 0, 0.05])}
    if rng.chance(20):
        d["kinds"]["solid_solutions"] = [rng.choice([0.001, 0.01]), rng.choice([0, 0.001])]
    if rng.chance(30):
        d["kinds"]["kinetics"] = {"rate": rng.choice(["lin", "first"]), "formula": rng.choice([[["NaCl", 1]], [["CaCl2", 0.5], ["NaCl", 1]], [["Calcite", 1]], [["NaCl", -1]]]), "m0": rng.choice([0.001, 0.01]),
                                  "parm": rng.choice([1e-7, 1e-6, 1e-5, 3e-5]), "steps": rng.choice([[100], [100, 200], [1000]]), "cvode": rng.chance(30),
                                  # reactants that run out in the middle of a time step, in a later integration sub-interval
                                  "step_divide": rng.choice([0, 0, 10, 50])}
    if "kinetics" in d["kinds"] and any(b < 0 for a, b in d["kinds"]["kinetics"]["formula"]):
        # a reactant that withdraws NaCl faster than the solution can supply it makes the integrator retry for minutes (no result to judge)
        d["kinds"]["kinetics"]["parm"] = min(d["kinds"]["kinetics"]["parm"], 1e-6)
    if rng.chance(25):
        # edge case: an element that is absent from the whole cell while a gas phase / phase list still names it with zero moles
        d["sol"]["C"] = 0
        d["kinds"].pop("solid_solutions", None)
        if "equilibrium_phases" in d["kinds"]:
            d["kinds"]["equilibrium_phases"] = [[p, si, 0] if p in ("Calcite", "Dolomite", "CO2(g)") else [p, si, m] for p, si, m in d["kinds"]["equilibrium_phases"] if p == "Gypsum"] or [["Gypsum", 0, 0.01]]
        if "kinetics" in d["kinds"] and any(a == "Calcite" for a, b in d["kinds"]["kinetics"]["formula"]):
            d["kinds"]["kinetics"]["formula"] = [["NaCl", 1]]
        d["kinds"]["gas_phase"] = {"type": rng.choice(["fixed_pressure", "fixed_volume"]), "co2": 0, "n2": 0.5, "o2": rng.choice([0, 0.05])}
    return d


def cell_text(c, db="phreeqc"):
    prof = DBPROF[db]
    n = c["n"]
    s = c["sol"]
    t = "SOLUTION %d\n temp 25\n pH %s\n -water %s\n" % (n, s["pH"], s["water"])
    for el in ("Na", "Cl", "Ca", "C", "S(6)", "Sr"):
        # explicit diffuse layers need charge-balanced solutions: the ion in excess on the other side is adjusted
        bal = "Cl" if (s["Na"] + 2 * s["Ca"] + 2 * s["Sr"]) > (s["C"] + 2 * s["S(6)"]) else "Na"
        if s[el]:
            t += " %s %s%s\n" % (el, s[el], " charge" if el == bal else "")
    k = c["kinds"]
    if "equilibrium_phases" in k:
        t += "EQUILIBRIUM_PHASES %d\n" % n + "".join(" %s %s %s\n" % (p, si, m) for p, si, m in k["equilibrium_phases"])
    if "exchange" in k:
        t += "EXCHANGE %d\n X %s\n -equilibrate %d\n" % (n, k["exchange"], n)
    if "surface" in k:
        # the explicit diffuse-layer integration does not converge with the Pitzer model ("Did not converge on g"): Donnan there
        opt = {"plain": "", "diffuse": " -diffuse_layer 1e-8\n" if db != "pitzer" else " -donnan 1e-8\n", "donnan": " -donnan 1e-8\n", "donnan2": " -donnan 1e-8\n", "no_edl": " -no_edl\n"}[k["surface"]]
        # donnan2: two binding-site families = two charge planes, each with its own diffuse layer (Su_ is defined in SURF2)
        t += "SURFACE %d\n%s Hfo_w 1e-3 600 1\n Hfo_s 5e-5\n%s -equilibrate %d\n" % (n, opt, " Su_ 4e-4 300 0.6\n" if k["surface"] == "donnan2" else "", n)
    if "gas_phase" in k:
        g = k["gas_phase"]
        t += "GAS_PHASE %d\n -%s\n -pressure 1\n -volume 1\n CO2(g) %s\n" % (n, g["type"], g["co2"])
        if g["n2"] and prof["n2"]:
            t += " N2(g) %s\n" % g["n2"]
        if g["o2"] and prof["o2"]:
            t += " O2(g) %s\n" % g["o2"]
    if "solid_solutions" in k:
        t += "SOLID_SOLUTIONS %d\n CaSr\n -comp %s %s\n -comp %s %s\n" % (n, prof["ss"][0], k["solid_solutions"][0], prof["ss"][1], k["solid_solutions"][1])
    if "kinetics" in k:
        q = k["kinetics"]
        t += "KINETICS %d\n %s\n -formula %s\n -m0 %s\n -parms %s\n -steps %s\n -cvode %s\n%s" % (n, q["rate"], " ".join("%s %s" % (a, b) for a, b in q["formula"]), q["m0"], q["parm"], " ".join(str(x) for x in q["steps"]), "true" if q["cvode"] else "false",
                                                         (" -step_divide %d\n" % q["step_divide"]) if q.get("step_divide") else "")
    return t + "END\n"


def generate(rng, tier, index):
    cells = [gen_cell(rng, n) for n in range(1, rng.range(2, 4) + 1)]
    steps = []
    last_b = None
    for _ in range(rng.range(2, 7)):
        r = rng.below(100)
        a = rng.choice(cells)["n"]
        if last_b is not None and rng.chance(45):
            a = last_b            # chaining: this step uses what the previous one saved
        if r < 55:
            rx = None
            if rng.chance(75):
                names = rng.sample(sorted(REACTANTS), rng.range(1, 2))
                amounts = rng.choice([[1], [0.5, 1, 2], [3], [10], [0.1, 0.2]])
                rx = {"names": [[nm, rng.choice([1, 0.5, 2])] for nm in names], "amounts": amounts, "unit": rng.choice(["mmol", "mmol", "umol"]), "incremental": rng.chance(30),
                      "negative": False}      # withdrawals beyond what a cell holds are clipped by the engine without an error: not modelled, not generated
            extra = None
            if rng.chance(40):
                # an unrelated entity defined in the same simulation as the reaction step (cell 7 or 8 is never stepped)
                extra = {"kind": rng.choice(["gas_phase", "gas_phase", "gas_phase", "equilibrium_phases", "exchange", "solid_solutions"]), "n": rng.range(7, 8), "v": rng.range(1, 5),
                         "pr": rng.chance(50)}
            steps.append({"op": "react", "a": a, "b": rng.choice([a, a, rng.range(1, 4)]), "rx": rx, "temp": rng.choice([None, None, 40, 60]), "extra": extra})
            last_b = steps[-1]["b"]
        elif r < 75:
            steps.append({"op": "run_cells", "a": a, "time_step": rng.choice([0, 50, 500])})
        elif r < 90:
            b = rng.choice(cells)["n"]
            steps.append({"op": "mix", "a": a, "b": b, "fa": rng.choice([0.25, 0.5, 1, 2]), "fb": rng.choice([0.5, 0.75]), "c": rng.range(5, 6)})
        else:
            steps.append({"op": "copy", "a": a, "b": rng.range(1, 4)})
    fault = None
    if index % 3 == 1:
        fault = {"kind": "buggify", "fail_first": rng.range(1, 6), "every": rng.choice([1, 1, 2, 3]), "phase": rng.below(3), "mode": rng.choice([1, 1, 2])}
    elif index % 4 == 2:
        fault = {"kind": "itmax", "iterations": rng.choice([8, 10, 12, 15, 20])}
    elif index % 4 == 0:
        # legal tuning knobs drawn per run: the rungs of the retry ladder are exactly such settings, so every one of them must conserve mass
        fault = {"kind": "knobs", "iterations": rng.choice([100, 150, 200, 400, 800]), "step_size": rng.choice([100, 100, 10, 5, 2, 1000]), "pe_step_size": rng.choice([10, 10, 5, 2, 1.5]),
                 "diagonal_scale": rng.chance(30), "tolerance": rng.choice([1e-15, 1e-15, 1e-14, 1e-16]), "convergence_tolerance": rng.choice([1e-8, 1e-8, 1e-10, 1e-12]),
                 "delay_mass_water": rng.chance(20), "numerical_derivatives": rng.chance(15)}
    plan = {"prop": PROP, "cells": cells, "steps": steps, "fault": fault}
    r = rng.below(100)
    db = "phreeqc" if r < 70 else "pitzer" if r < 85 else "sit" if r < 93 else "wateq4f"
    if db != "phreeqc":
        plan["db"] = db
        prof = DBPROF[db]
        for st in steps:
            if st["op"] == "react" and st["rx"]:
                st["rx"]["names"] = [nc for nc in st["rx"]["names"] if nc[0] not in prof["drop"]] or [["NaCl", 1]]
            if st["op"] == "react" and st.get("extra") and st["extra"]["kind"] in prof.get("nokinds", ()):
                st["extra"]["kind"] = "equilibrium_phases"
        for c in cells:
            for kd in prof.get("nokinds", ()):
                c["kinds"].pop(kd, None)
    return plan


def step_text(st, present, db="phreeqc"):
    prof = DBPROF[db]
    """present: set of (kind, n) existing before the step"""
    k = st["op"]
    if k == "react":
        a, b = st["a"], st["b"]
        t = "USE solution %d\n" % a
        used = [kd for kd in SAVABLE + ["kinetics"] if (kd, a) in present]
        for kd in used:
            t += "USE %s %d\n" % (kd, a)
        ex = st.get("extra")
        if ex and ex["kind"] not in used:
            t += "USE %s none\n" % ex["kind"]       # a reactant defined in this simulation would otherwise take part in the step
        if ex:
            if ex["kind"] == "gas_phase":
                t = "GAS_PHASE %d\n -fixed_volume\n -volume 1\n%s CO2(g) 0.%d\n%s" % (ex["n"], " -pressure 60\n" if ex["pr"] else "", ex["v"], (" N2(g) 0.%d\n" % ex["v"]) if prof["n2"] else "") + t
            elif ex["kind"] == "equilibrium_phases":
                t = "EQUILIBRIUM_PHASES %d\n Calcite 0 0.%d\n" % (ex["n"], ex["v"]) + t
            elif ex["kind"] == "exchange":
                t = "EXCHANGE %d\n NaX 0.0%d\n" % (ex["n"], ex["v"]) + t
            else:
                t = "SOLID_SOLUTIONS %d\n CaSr\n -comp %s 0.0%d\n -comp %s 0.00%d\n" % (ex["n"], prof["ss"][0], ex["v"], prof["ss"][1], ex["v"]) + t
        rx = st["rx"]
        if rx:
            t += "REACTION 9\n" + "".join(" %s %s\n" % (nm, cf) for nm, cf in rx["names"])
            sign = "-" if rx["negative"] else ""
            t += " " + " ".join("%s%s" % (sign, x) for x in rx["amounts"]) + " %s\n" % rx["unit"]
            t += "INCREMENTAL_REACTIONS %s\n" % ("true" if rx["incremental"] else "false")
        if st["temp"]:
            t += "REACTION_TEMPERATURE 9\n %s\n" % st["temp"]
        if not used and not rx and not st["temp"]:
            return None
        if rx is None and not st["temp"] and not any(kd in SAVABLE for kd in used):
            pass
        t += "SAVE solution %d\n" % b
        for kd in used:
            if kd != "kinetics":
                t += "SAVE %s %d\n" % (kd, b)
        return t + "END\n"
    if k == "run_cells":
        if st["time_step"]:
            return "RUN_CELLS\n -cells %d\n -time_step %s\nEND\n" % (st["a"], st["time_step"])
        return "RUN_CELLS\n -cells %d\nEND\n" % st["a"]
    if k == "mix":
        return "MIX 9\n %d %s\n %d %s\nSAVE solution %d\nEND\n" % (st["a"], st["fa"], st["b"], st["fb"], st["c"])
    return "COPY cell %d %d\nEND\n" % (st["a"], st["b"])


def check_plan(ctx, plan):
    rep = Report()
    f = plan["fault"]
    db = plan.get("db", "phreeqc")
    rep.count("db:" + db)
    head = [["create", "1", "sim"], call("cpp", "s1", "SetDumpStringOn", 1), call("cpp", "s1", "LoadDatabase", DBPROF[db]["file"]), call("cpp", "s1", "RunString", RATES), call("cpp", "s1", "RunString", SURF2)]
    if f and f["kind"] == "itmax":
        head.append(call("cpp", "s1", "RunString", "KNOBS\n -iterations %d\nEND\n" % f["iterations"]))
    if f and f["kind"] == "knobs":
        tf = lambda b: "true" if b else "false"
        head.append(call("cpp", "s1", "RunString", "KNOBS\n -iterations %d\n -step_size %s\n -pe_step_size %s\n -diagonal_scale %s\n -tolerance %s\n -convergence_tolerance %s\n -delay_mass_water %s\n -numerical_derivatives %s\nEND\n"
                         % (f["iterations"], f["step_size"], f["pe_step_size"], tf(f["diagonal_scale"]), f["tolerance"], f["convergence_tolerance"], tf(f["delay_mass_water"]), tf(f["numerical_derivatives"]))))
    for c in plan["cells"]:
        head.append(call("cpp", "s1", "RunString", cell_text(c, db)))
    # the set of existing keys is needed to write the steps: it is tracked from the plan (definitions + saves), and verified against the dump
    present = set()
    for c in plan["cells"]:
        present.add(("solution", c["n"]))
        for kd in c["kinds"]:
            present.add((kd, c["n"]))
    DUMP = [call("cpp", "s1", "RunString", "DUMP\n -all\nEND\n"), call("cpp", "s1", "GetDumpString")]
    ops = list(head) + DUMP
    marks = []
    for si, st in enumerate(plan["steps"]):
        if ("solution", st["a"]) not in present or (st["op"] == "mix" and ("solution", st["b"]) not in present):
            continue
        txt = step_text(st, present, db)
        if txt is None:
            continue
        pre = set(present)
        if st["op"] == "react":
            present.add(("solution", st["b"]))
            for kd in SAVABLE:
                if (kd, st["a"]) in pre:
                    present.add((kd, st["b"]))
        elif st["op"] == "mix":
            present.add(("solution", st["c"]))
        elif st["op"] == "copy":
            for kd in STATE_KINDS:
                if (kd, st["a"]) in pre:
                    present.add((kd, st["b"]))
        if f and f["kind"] == "buggify":
            ops.append(["buggify", str(f["fail_first"]), str(f["every"]), str(f["phase"] + si), str(f["mode"])])
        marks.append((si, len(ops), pre))
        ops.append(call("cpp", "s1", "RunString", txt))
        ops.append(call("cpp", "s1", "GetErrorString"))
        ops.append(call("cpp", "s1", "GetWarningString"))
        if f and f["kind"] == "buggify":
            ops.append(["buggify", "read"])
            ops.append(["buggify", "0", "1", "0", "1"])
        ops += DUMP
    res = ctx.execute("asan", [ops], timeout=45)
    if crash_violation(rep, res, "C02 history"):
        return rep
    R = res.client(0)
    if any(R[i].f[0] != "0" for i in range(3, len(head))):
        rep.count("skipped_definition_error")
        rep.sample = {"skipped": "a definition returned errors"}
        return rep
    before = R[len(head) + 1].f[0]
    dkey = []
    for si, idx, pre in marks:
        st = plan["steps"][si]
        ret, err = R[idx].f[0], R[idx + 1].f[0]
        warn = R[idx + 2].f[0]
        off = 3
        fired = 0
        if f and f["kind"] == "buggify":
            fired = int(R[idx + 3].f[0]) if R[idx + 3].f and R[idx + 3].f[0].lstrip("-").isdigit() else 0
            off = 5
        # the last-but-three rung of the retry ladder ("negative concentrations" inequality) is identified in the key: see KF55
        rung11 = "Adding inequality to make concentrations greater than zero" in warn
        after = R[idx + off + 1].f[0]
        what = "step %d (%s)%s" % (si, describe(st), (" under %s" % json.dumps(f)) if f else "")
        if f and f["kind"] == "knobs":
            rep.count("steps_under_random_knobs")
        if fired:
            rep.count("buggify_fired", fired)
            rep.count("retry_ladder_entered")
        if "Numerical method failed" in warn or "retrying" in err or "retrying" in warn:
            rep.count("retry_ladder_entered")
        if ret != "0":
            rep.count("steps_with_errors")
            break                      # outside the statement ("completes without error"); the state after a failed step is not judged
        eb = {(e.kind, e.n): e for e in raw.entities(before)[0] if e.n >= 0}
        ea = {(e.kind, e.n): e for e in raw.entities(after)[0] if e.n >= 0}
        # which entities does the step read and write?
        k = st["op"]
        src, dst, added = [], [], {}
        if k == "react":
            a, b = st["a"], st["b"]
            src = [(1.0, ("solution", a))] + [(1.0, (kd, a)) for kd in SAVABLE + ["kinetics"] if (kd, a) in pre]
            dst = [("solution", b)] + [(kd, b) for kd in SAVABLE if (kd, a) in pre] + ([("kinetics", a)] if ("kinetics", a) in pre else [])
            rx = st["rx"]
            if rx:
                unit = 1e-3 if rx["unit"] == "mmol" else 1e-6
                # the number of steps of a batch reaction is the largest step count among REACTION, KINETICS and temperature; a list that is too
                # short repeats its last entry (incremental mode adds it again, cumulative mode stays at it)
                nsteps = len(rx["amounts"])
                if ("kinetics", a) in pre:
                    kt = eb[("kinetics", a)].tree()
                    kc = raw.child(kt, "-count")
                    ks = raw.child(kt, "-steps")
                    eq = raw.child(kt, "-equal_increments")
                    ntok = sum(len((c[1] + " " + c[2]).split()) for c in ks[3]) if ks is not None else 1
                    nk = int(raw.fnum(kc)) if (eq is not None and raw.fnum(eq) == 1 and kc is not None) else max(ntok, 1)
                    nsteps = max(nsteps, nk)
                seq = [rx["amounts"][min(i, len(rx["amounts"]) - 1)] for i in range(nsteps)]
                amt = (sum(seq) if rx["incremental"] else seq[-1]) * unit * (-1 if rx["negative"] else 1)
                for nm, cf in rx["names"]:
                    add(added, parse_formula(REACTANTS[nm]), cf * amt)
        elif k == "run_cells":
            a = st["a"]
            src = [(1.0, (kd, a)) for kd in STATE_KINDS if (kd, a) in pre]
            dst = [key for _, key in src]
            rep.count("run_cells_steps")
        elif k == "mix":
            src = [(st["fa"], ("solution", st["a"])), (st["fb"], ("solution", st["b"]))]
            dst = [("solution", st["c"])]
            rep.count("mix_steps")
        else:
            src, dst = [], []
        named = set(dst)
        if st.get("extra"):
            named.add((st["extra"]["kind"], st["extra"]["n"]))
        missing = [key for _, key in src if key not in eb] + [key for key in dst if key not in ea]
        if missing:
            rep.viol("ledger", "C02:entity_missing", "%s: entities %r expected by the step are not in the dump" % (what, missing))
            break
        # entities the step did not name must be textually unchanged
        for key, e in eb.items():
            if key in named or (k == "copy" and key[1] == st["b"]) or key[0] not in STATE_KINDS:
                continue          # REACTION 9 / MIX 9 / REACTION_TEMPERATURE 9 are (re)defined by the steps themselves; number 9 is never a cell
            if key not in ea:
                rep.viol("untouched", "C02:unnamed_entity_removed:" + key[0], "%s: %s %d disappeared although the step does not name it" % (what, key[0], key[1]))
                break
            if "\n".join(ea[key].content_lines()) != "\n".join(e.content_lines()):
                rep.viol("untouched", "C02:unnamed_entity_changed:" + key[0], "%s: %s %d changed although the step does not name it: %s" % (what, key[0], key[1], first_diff("\n".join(e.content_lines()), "\n".join(ea[key].content_lines()))))
                break
        if rep.violations:
            break
        if k == "copy":
            before = after
            continue
        inv_b, inv_a, gross = {}, {}, {}
        neg = []
        for fr, key in src:
            iv = inventory(eb[key])
            iv.pop("!negative", None)
            add(inv_b, iv, fr)
            add(gross, {k2: abs(v2) for k2, v2 in iv.items()}, abs(fr))     # a kinetic formula with a negative coefficient holds a negative amount: the
                                                                             # scale of an element is what the entities hold in absolute terms
        for key in dst:
            iv = inventory(ea[key])
            neg += iv.pop("!negative", [])
            add(inv_a, iv)
        add(inv_b, added)
        if neg:
            # amounts are "name repr(moles)"; a residue of the order of the rounding of the mole balances (|n| < 1e-12 mol) is told apart
            # from a negative amount proper
            vals = [abs(float(x.split()[-1])) for x in neg]
            rep.viol("negative", "C02:negative_amount" + (":roundoff" if max(vals) < 1e-12 else ""), "%s: negative reactant amounts after the step: %r" % (what, neg))
            break
        rep.count("steps_checked")
        for kd in set(key[0] for key in dst):
            rep.count("kinds:" + kd)
        changed = False
        for el in sorted(set(inv_b) | set(inv_a)):
            x, y = inv_b.get(el, 0.0), inv_a.get(el, 0.0)
            scale = max(abs(x), abs(y), gross.get(el, 0.0))
            if el == "charge":
                # charge is compared against the ionic content of the system, not against its own (near-zero) value
                scale = max(scale, inv_b.get("Na", 0) + inv_b.get("Cl", 0) + 2 * inv_b.get("Ca", 0), 1e-6)
                rep.count("charge_checked")
            elif scale < 1e-7:
                rep.count("elements_below_floor")     # the generator introduces every element with >= 1e-7 mol; what is below is a residue of a reaction
                continue
            else:
                rep.count("elements_checked")
            if abs(x - y) > 1e-6 * scale:
                kind = "charge" if el == "charge" else "element"
                if (abs(x - y) < 1e-9 and scale < (1e-4 if el == "charge" else 1e-5)) or abs(x - y) < 5e-10:
                    kind += "_trace"      # the solver's accuracy has an absolute floor (~1e-10 mol), not only a relative one: listed as a known finding (KF21)
                rep.viol("ledger", "C02:not_conserved:" + kind + ("|rung11" if rung11 and not kind.endswith("_trace") else ""), "%s: %s before + added = %r, after = %r (difference %.3e, relative %.2e); system %r" % (what, el, x, y, y - x, abs(x - y) / scale, [key for _, key in src]))
                break
        if rep.violations:
            break
        for fr, key in src:
            if key in ea and key in eb and "\n".join(ea[key].content_lines()) != "\n".join(eb[key].content_lines()):
                changed = True
        if any(key not in eb or "\n".join(ea[key].content_lines()) != "\n".join(eb[key].content_lines()) for key in dst):
            changed = True
        if changed:
            rep.count("steps_with_change")
            dkey.append("%s|%s|%s|%s" % (k, ",".join(sorted(set(key[0] for _, key in src))), f["kind"] if f else "-", db))
        before = after
    for x in set(dkey):
        rep.distinct.append(hashlib.sha1(x.encode()).hexdigest()[:10])
    rep.sample = {"cells": [{"n": c["n"], "kinds": sorted(c["kinds"])} for c in plan["cells"]], "steps": [describe(s) for s in plan["steps"]], "fault": f}
    return rep


def describe(st):
    k = st["op"]
    if k == "react":
        rx = st["rx"]
        return "react cell %d -> %d%s%s" % (st["a"], st["b"], (" + " + ",".join("%s*%s" % (c, n) for n, c in rx["names"]) + " %s %s%s" % (rx["amounts"], rx["unit"], " incremental" if rx["incremental"] else "") + (" (withdrawn)" if rx["negative"] else "")) if rx else "",
                                             " at %s C" % st["temp"] if st["temp"] else "")
    if k == "run_cells":
        return "run_cells %d time_step %s" % (st["a"], st["time_step"])
    if k == "mix":
        return "mix %s*sol%d + %s*sol%d -> sol%d" % (st["fa"], st["a"], st["fb"], st["b"], st["c"])
    return "copy cell %d -> %d" % (st["a"], st["b"])


def shrink_candidates(plan):
    st = plan["steps"]
    for i in range(len(st)):
        if len(st) > 1:
            yield dict(plan, steps=st[:i] + st[i + 1:])
    if plan["fault"]:
        yield dict(plan, fault=None)
    cells = plan["cells"]
    for i, c in enumerate(cells):
        for kd in list(c["kinds"]):
            nk = dict(c["kinds"])
            del nk[kd]
            yield dict(plan, cells=cells[:i] + [dict(c, kinds=nk)] + cells[i + 1:])
    for i, s in enumerate(st):
        if s["op"] == "react" and s.get("temp"):
            yield dict(plan, steps=st[:i] + [dict(s, temp=None)] + st[i + 1:])
