"""C04 — results depend only on the input text, not on how it is delivered or split.

Input T = an error-free multi-simulation text.  Reference: RunString(T) on a fresh instance, then
RunString("DUMP; -all; END").  A plan chooses a cut set (subset of END positions), for each piece an entry
point (RunString, RunFile, AccumulateLine xN + RunAccumulated), a read chunking for RunFile pieces (short
reads, EINTR: delivery faults that must be transparent) and 0-3 benign calls between pieces.

Oracle: (1) the concatenation over calls of each user number's data rows equals the reference table's data rows,
cell by cell (type and bitwise value, columns addressed by heading name, the sim column excepted; a column absent
from a call's table must be empty in the reference row); (2) the final DUMP -all text is equal after masking the
'after simulation N.' descriptions; (3) the component list is equal; (4) every piece returns 0."""
import hashlib, json, re
from common import *
from runner import Report, crash_violation
from simlib import FF
from streams import parse_table
import workloads as W
import c07

PROP = "C04"
LEVEL = "exploration"
VARIANTS = ["asan"]
RULE = ("inputs: shipped examples, the workload corpus, concatenations of 2-3 corpus inputs of one database and hand-written multi-simulation texts in which "
        "definitions made in one simulation are used in later ones (SELECTED_OUTPUT/USER_PUNCH before database additions, PRINT/KNOBS, SAVE/USE/COPY chains, "
        "RATES/CALCULATE_VALUES, INCREMENTAL_REACTIONS, TRANSPORT/ADVECTION parameters); cut sets drawn from all subsets of END positions; entry point, read "
        "chunking and benign calls drawn per piece. Non-trivial = >= 2 pieces and >= 1 selected-output data row or >= 3 entity kinds in the final dump; "
        "distinct = distinct (input, cut set, entry-point vector).")
COMPONENTS = {"real": "whole IPhreeqc library from /repo's working tree (ASan+UBSan)",
              "stub": "libc file calls of sandbox files (short reads, EINTR on the input files), clock() frozen"}
ASSUMPTIONS = ["bitwise equality of table cells is demanded: both executions perform the same arithmetic in the same order (probed on the shipped examples)",
               "inputs whose whole-text reference run returns errors are skipped (counted), the property is about error-free inputs"]
REACH_PROBES = ["compared_plans", "pieces", "rows_compared", "chunked_file_pieces", "eintr_fired", "benign_calls", "skipped_reference_error"]
tiers = {"quick": dict(runs=6000, budget_s=150, workers=16), "thorough": dict(runs=60000, budget_s=1700, workers=16)}

S1 = c07.S1
ZZ_DEFS = ("SOLUTION_MASTER_SPECIES\n Zz Zz+ 0 Zz 90\nSOLUTION_SPECIES\n Zz+ = Zz+\n log_k 0\n Zz+ + Cl- = ZzCl\n log_k 1.5\nPHASES\n Zzite\n ZzCl = Zz+ + Cl-\n log_k -2\n"
           " Calcite_lowT\n CaCO3 = CO3-2 + Ca+2\n log_k -8.30\n")
HAND = {
    "c04_dbadd_late": "SELECTED_OUTPUT 1\n -reset false\n -pH\n -totals Zz Ca\n -molalities ZzCl\n -si Calcite Zzite Calcite_lowT\n -equilibrium_phases Zzite Calcite_lowT\n" + S1 + "END\n" + ZZ_DEFS + "END\n"
                      "SOLUTION 2\n pH 7\n Na 5\n Cl 5\n Zz 1\n Ca 1\n C 1\nEQUILIBRIUM_PHASES 2\n Zzite 0 0.01\n Calcite_lowT 0 0.01\nSAVE solution 3\nEND\nUSE solution 3\nREACTION 1\n NaCl 1\n 1 2 mmol\nEND\n",
    "c04_print_knobs": "PRINT\n -reset false\n -totals true\n -warnings 5\nKNOBS\n -iterations 150\n -step_size 7\n -pe_step_size 3\nSELECTED_OUTPUT 2\n -reset false\n -high_precision true\n -pH\n -pe\n -ionic_strength\n -totals Fe Ca\n" + S1 + " Fe 0.01\n pe 6\nEND\n"
                       "USE solution 1\nEQUILIBRIUM_PHASES 1\n Goethite 0 0\n Calcite 0 1\nSAVE solution 2\nEND\nPRINT\n -reset true\nUSE solution 2\nREACTION_TEMPERATURE 1\n 35 60\nEND\n",
    "c04_punch_persist": "USER_PUNCH 1\n -headings na k step ratio\n10 PUNCH TOT(\"Na\"), TOT(\"K\"), STEP_NO, CALC_VALUE(\"ratio\")\nSELECTED_OUTPUT 1\n -reset false\n -user_punch true\nCALCULATE_VALUES\n ratio\n -start\n10 SAVE TOT(\"Ca\") / TOT(\"Na\")\n -end\n" + S1 + "END\n"
                         "USE solution 1\nREACTION 1\n KCl 1\n 1 2 3 mmol\nSAVE solution 2\nEND\nCALCULATE_VALUES\n ratio\n -start\n10 SAVE 2 * TOT(\"Ca\") / TOT(\"Na\")\n -end\nEND\nUSE solution 2\nREACTION 2\n NaCl 1\n 1 mmol\nEND\n",
    "c04_save_use_chain": S1 + "EXCHANGE 1\n X 0.01\n -equilibrate 1\nSURFACE 1\n Hfo_w 1e-3 600 1\n -equilibrate 1\nSELECTED_OUTPUT 3\n -reset false\n -solution\n -totals Ca Na\n -molalities CaX2 NaX\nEND\n"
                          "USE solution 1\nUSE exchange 1\nUSE surface 1\nREACTION 1\n CaCl2 1\n 1 mmol\nSAVE solution 2-3\nSAVE exchange 2\nSAVE surface 2\nEND\nCOPY cell 2 7-8\nEND\nDELETE\n -solution 3\nEND\n"
                          "RUN_CELLS\n -cells 2 7\nEND\nUSE solution 8\nUSE exchange 8\nREACTION 1\n NaCl 1\n 2 mmol\nSAVE solution 9\nEND\n",
    "c04_rates_incr": "RATES\n dec\n -start\n10 SAVE parm(1) * TOT(\"Na\") * TIME\n -end\nINCREMENTAL_REACTIONS true\nSELECTED_OUTPUT 1\n -reset false\n -time\n -step\n -totals Na\n -kinetic_reactants dec\nUSER_PUNCH 1\n -headings tt\n10 PUNCH TOTAL_TIME\n" + S1 +
                      "KINETICS 1\n dec\n -formula NaCl -1\n -m0 1\n -parms 1e-6\n -steps 100 200\nSAVE solution 2\nEND\nUSE solution 2\nUSE kinetics 1\nEND\nRUN_CELLS\n -cells 1\n -time_step 300\nEND\nKINETICS_MODIFY 1\n -component dec\n -d_params 2e-6\nEND\nRUN_CELLS\n -cells 1\n -time_step 300\nEND\n",
    # the PUT/GET store is the memory through which BASIC programs hand values from one simulation to later ones (manual example 6 idiom)
    "c04_put_get": "USER_PUNCH 1\n -headings ca_first ca_now n_calls diff\n10 IF EXISTS(1) = 0 THEN PUT(TOT(\"Ca\"), 1)\n20 IF EXISTS(2, 3) = 0 THEN PUT(0, 2, 3)\n30 PUT(GET(2, 3) + 1, 2, 3)\n"
                   "40 PUNCH GET(1), TOT(\"Ca\"), GET(2, 3), TOT(\"Ca\") - GET(1)\nSELECTED_OUTPUT 1\n -reset false\n -user_punch true\n" + S1 + "END\n"
                   "USE solution 1\nEQUILIBRIUM_PHASES 1\n Calcite 0 1\n CO2(g) -2 1\nSAVE solution 2\nEND\nUSE solution 2\nREACTION 1\n HCl 1\n 0.5 1 mmol\nSAVE solution 3\nEND\n"
                   "USER_PRINT\n10 PRINT \"stored\", GET(1), GET(2, 3)\nUSE solution 3\nREACTION_TEMPERATURE 1\n 40\nEND\n",
    "c04_transport_params": "SOLUTION 0\n Na 1\n Cl 1\nSOLUTION 1-4\n K 1\n N(5) 1\nEXCHANGE 1-4\n X 0.001\n -equilibrate 1\nSELECTED_OUTPUT 1\n -reset false\n -distance\n -step\n -totals Na K\nTRANSPORT\n -cells 4\n -shifts 3\n -time_step 1000\n -lengths 4*0.02\n"
                            " -dispersivities 4*0.004\n -diffusion_coefficient 0.5e-9\n -punch_cells 2-4\n -punch_frequency 1\nEND\nTRANSPORT\n -shifts 2\nEND\nSOLUTION 0\n Ca 0.5\n Cl 1\nEND\nTRANSPORT\n -shifts 2\n -punch_cells 1 4\nEND\nADVECTION\n -cells 4\n -shifts 2\n -punch_cells 4\nEND\n",
    "c04_title_dump": "TITLE first title\n" + S1 + "GAS_PHASE 1\n -fixed_pressure\n -pressure 1\n -volume 1\n CO2(g) 0.01\n N2(g) 0.9\nSOLID_SOLUTIONS 1\n CaSr\n -comp Calcite 0.01\n -comp Strontianite 0.001\nSAVE solution 2\nSAVE gas_phase 2\nEND\nTITLE second\nUSE solution 2\nUSE gas_phase 2\nUSE solid_solutions 1\nREACTION 1\n SrCl2 1\n 0.1 0.2 mmol\nSAVE solid_solutions 2\nEND\nMIX 1\n 1 0.5\n 2 0.5\nSAVE solution 5\nEND\n",
}
INPUTS = {}
for _n in W.WORK:
    INPUTS[_n] = None
for _n, _t in HAND.items():
    INPUTS[_n] = _t
NO_SIMNO = [n for n in INPUTS if n not in ("w_basic",)]        # w_basic is fine (no SIM_NO); list kept for clarity
FASTISH = sorted(set(W.FAST) | set(HAND)) + ["ex6", "ex10", "ex14", "ex13a", "ex18", "ex22", "ex20a"]
COMBOS = [["w_react", "w_exch_surf", "w_kin_rk"], ["w_spec", "w_gas_ss", "w_react"], ["w_adv", "w_kin_cvode"], ["w_calcval", "w_basic", "w_react"], ["ex2", "ex3", "ex4"],
          ["ex5", "ex7"], ["w_trans", "w_adv"], ["ex9", "w_react"], ["w_mix_basic", "w_adv_basic"], ["c04_dbadd_late", "w_react"], ["c04_punch_persist", "c04_save_use_chain"], ["ex1", "ex19", "w_sorted"]]


def in_text(name):
    if name in HAND:
        return HAND[name]
    return W.text(name)


def in_db(name):
    return PHREEQC_DAT if name in HAND else W.db(name)


def in_inc(name):
    return [] if name in HAND else W.inc_ops(name)


def plan_text(plan):
    if plan.get("text"):
        return plan["text"]
    parts = []
    for n in plan["inputs"]:
        t = in_text(n)
        if not t.endswith("\n"):
            t += "\n"
        if not re.search(r"^\s*END\s*$", t.rstrip("\n").split("\n")[-1], re.I):
            t += "END\n"
        parts.append(t)
    return "".join(parts)


PRINT_TOGGLES = [" -selected_output false", " -selected_output true", " -selected_output false", " -user_print false", " -user_print true", " -species false", " -totals false", " -reset true",
                 " -saturation_indices false", " -headings false", " -warnings 2", " -dump false", " -dump true", " -alkalinity true"]
KNOB_LINES = [" -iterations 150", " -step_size 7", " -pe_step_size 3", " -diagonal_scale true", " -tolerance 1e-14", " -convergence_tolerance 1e-10", " -logfile true"]
CALCS = ["USE solution 1\nREACTION 1\n NaCl 1\n 1 2 mmol\nSAVE solution 2\nEND\n", "USE solution 1\nEQUILIBRIUM_PHASES 1\n Calcite 0 1\n CO2(g) -2 1\nSAVE solution 3\nEND\n",
         "USE solution 1\nREACTION_TEMPERATURE 1\n 30 50\nEND\n", "SOLUTION 4\n K 1\n Cl 1\nEND\n", "MIX 1\n 1 0.5\n 1 0.5\nSAVE solution 5\nEND\n",
         "USE solution 1\nREACTION 2\n HCl 1\n 0.5 mmol in 2 steps\nEND\n", "SOLUTION 0\n Na 1\n Cl 1\nSOLUTION 6-7\n K 1\n Cl 1\nADVECTION\n -cells 2\n -shifts 2\n -punch_cells 1-2\nEND\n"]


def gen_text(rng):
    """multi-simulation text whose later simulations rely on definitions and sticky settings made in earlier ones"""
    import c05
    t = ""
    nums = rng.sample([1, 2, 3, 5, 10], rng.range(1, 3))
    for n in nums:
        b, _ = c05.gen_block(rng, n)
        t += "\n".join(l for l in b.split("\n") if not l.startswith(" -file")) + ("" if b.endswith("\n") else "\n")
    t = t.replace("SIM_NO", "STEP_NO")          # the simulation counter is the one thing the statement lets differ
    t += S1 + "END\n"
    for _ in range(rng.range(2, 5)):
        if rng.chance(55):
            t += "PRINT\n" + "\n".join(rng.sample(PRINT_TOGGLES, rng.range(1, 2))) + "\n"
        if rng.chance(25):
            t += "KNOBS\n" + "\n".join(rng.sample(KNOB_LINES, rng.range(1, 2))) + "\n"
        if rng.chance(15):
            t += "INCREMENTAL_REACTIONS %s\n" % rng.choice(["true", "false"])
        if rng.chance(15):
            b, _ = c05.gen_block(rng, rng.choice(nums))
            t += ("\n".join(l for l in b.split("\n") if not l.startswith(" -file")) + ("" if b.endswith("\n") else "\n")).replace("SIM_NO", "STEP_NO")
        if rng.chance(10):
            t += "TITLE a title in the middle\n"
        t += rng.choice(CALCS)
    return t


def generate(rng, tier, index):
    if rng.chance(30):
        p = generate_corpus(rng, tier, index)
        p["inputs"] = ["@generated"]
        p["text"] = gen_text(rng)
        return p
    return generate_corpus(rng, tier, index)


def generate_corpus(rng, tier, index):
    if rng.chance(35):
        inputs = list(rng.choice(COMBOS))
        if rng.chance(30):
            rng.shuffle(inputs)
    else:
        inputs = [rng.choice(FASTISH)]
    npieces_hint = rng.range(2, 5)
    return {"prop": PROP, "inputs": inputs, "cut_frac": [rng.uniform() for _ in range(npieces_hint - 1)], "cut_all": rng.chance(15),
            "entries": [rng.choice(["string", "file", "acc"]) for _ in range(16)], "chunks": [rng.choice([0, 0, 1, 7, 64, 4096]) for _ in range(16)],
            "eintr": [rng.choice([0, 0, 0, 1, 3]) for _ in range(16)], "benign": [rng.range(0, 3) for _ in range(16)], "benign_seed": rng.below(1000),
            "sinks": rng.chance(30)}


# GetComponentCount / GetComponent are not in this list: ListComponents recomputes the -totals workspace field of every KINETICS
# entity with unit coefficients (observed: the DUMP text changes, no calculated result does), and the statement is about
# delivery and splitting, not about getters between calls.
BENIGN = [["GetSelectedOutputCount"], ["GetSelectedOutputRowCount"], ["GetSelectedOutputValue", 1, 0], ["GetSelectedOutputValue", -1, 99], ["GetErrorString"], ["GetWarningString"],
          ["GetOutputStringLineCount"], ["GetDumpString"], ["ClearAccumulatedLines"], ["GetCurrentSelectedOutputUserNumber"], ["GetNthSelectedOutputUserNumber", 0], ["GetLogFileName"],
          ["GetSelectedOutputStringLine", 2], ["SetCurrentSelectedOutputUserNumber", 1], ["GetSelectedOutputColumnCount"]]


def pieces_of(plan):
    text = plan_text(plan)
    sims = split_simulations(text)
    n = len(sims)
    if n <= 1:
        return [text], text
    if plan["cut_all"]:
        cuts = set(range(1, n))
    else:
        cuts = set(1 + int(f * (n - 1)) for f in plan["cut_frac"])
        cuts = set(c for c in cuts if 1 <= c <= n - 1)
    out, cur = [], []
    for i, s in enumerate(sims):
        if i in cuts and cur:
            out.append("".join(cur))
            cur = []
        cur.append(s)
    out.append("".join(cur))
    return out, text


def compile_plan(plan):
    pieces, text = pieces_of(plan)
    db = PHREEQC_DAT if plan.get("text") else in_db(plan["inputs"][0])
    incs = []
    for n in ([] if plan.get("text") else plan["inputs"]):
        incs += in_inc(n)
    head = [["create", "1", "sim"]]
    if plan["sinks"]:
        head += [call("cpp", "s1", "SetOutputStringOn", 1), call("cpp", "s1", "SetLogStringOn", 1), call("cpp", "s1", "SetSelectedOutputStringOn", 1)]
    head += [call("cpp", "s1", "SetDumpStringOn", 1), call("cpp", "s1", "LoadDatabase", db)] + incs
    ops = list(head)
    marks = []
    k = plan["benign_seed"]
    for i, p in enumerate(pieces):
        e = plan["entries"][i % 16]
        if e == "file":
            fn = "c04_piece_%d.pqi" % i
            ops.append(["mkfile", fn, p])
            if plan["chunks"][i % 16]:
                ops.append(["fs_fault", fn, str(FF["read_short"]), str(plan["chunks"][i % 16]), "0"])
            if plan["eintr"][i % 16]:
                ops.append(["fs_fault", fn, str(FF["eintr"]), str(plan["eintr"][i % 16]), "0"])
            marks.append(("run", i, len(ops)))
            ops.append(call("cpp", "s1", "RunFile", fn))
            ops.append(["fs_clear"])
        elif e == "acc":
            for l in p.rstrip("\n").split("\n"):
                ops.append(call("cpp", "s1", "AccumulateLine", l))
            marks.append(("run", i, len(ops)))
            ops.append(call("cpp", "s1", "RunAccumulated"))
        else:
            marks.append(("run", i, len(ops)))
            ops.append(call("cpp", "s1", "RunString", p))
        marks.append(("tab", i, len(ops)))
        ops.append(["transcript", "cpp", "s1", "T"])
        for b in range(plan["benign"][i % 16]):
            k = (k * 31 + 7) % 1009
            bc = BENIGN[k % len(BENIGN)]
            ops.append(call("cpp", "s1", bc[0], *bc[1:]))
            marks.append(("benign", i, len(ops) - 1))
    marks.append(("final", 0, len(ops)))
    ops.append(call("cpp", "s1", "RunString", "DUMP\n -all\nEND\n"))
    ops.append(["transcript", "cpp", "s1", "C"])
    ops.append(call("cpp", "s1", "GetDumpString"))
    # reference
    rops = list(head) + [call("cpp", "s1", "RunString", text), ["transcript", "cpp", "s1", "T"], call("cpp", "s1", "RunString", "DUMP\n -all\nEND\n"), ["transcript", "cpp", "s1", "C"], call("cpp", "s1", "GetDumpString")]
    return ops, marks, rops, len(head), pieces


DESC = re.compile(r"after simulation \d+\.?")


def mask_dump(s):
    return DESC.sub("after simulation N.", s)


def tables_of(kv):
    out = {}
    for x in [int(v) for v in kv.get("selnums", "").split(",") if v != ""]:
        out[x] = parse_table(kv.get("sel.%d.table" % x, ""))
    return out


def check_plan(ctx, plan):
    rep = Report()
    ops, marks, rops, nhead, pieces = compile_plan(plan)
    ref = ctx.execute("asan", [rops], timeout=120)
    if crash_violation(rep, ref, "C04 reference (whole text in one RunString)"):
        return rep
    RR = ref.client(0)
    if RR[nhead].f[0] != "0":
        rep.count("skipped_reference_error")
        rep.sample = {"inputs": plan["inputs"], "skipped": "reference returns %s" % RR[nhead].f[0]}
        return rep
    res = ctx.execute("asan", [ops], timeout=120)
    if crash_violation(rep, res, "C04 split delivery"):
        return rep
    R = {o.idx: o for o in res.client(0)}
    for o in res.client(0):
        if o.exc():
            rep.viol("exception", "C04:exception", "op %r raised %s" % ([x[:50] for x in ops[o.idx][:4]], o.exc()))
    where = "inputs %s cut into %d pieces" % ("+".join(plan["inputs"]), len(pieces))
    # (4) every piece returns 0
    ok = True
    for kind, i, idx in marks:
        if kind == "run" and R[idx].f[0] != "0":
            e = plan["entries"][i % 16]
            rep.viol("piece_error", "C04:piece_returns_error", "%s: piece %d (via %s) returned %s although the whole text runs without error; piece starts %r" % (where, i, e, R[idx].f[0], pieces[i][:80]))
            ok = False
    if not ok:
        return rep
    rep.count("compared_plans")
    rep.count("pieces", len(pieces))
    rep.count("chunked_file_pieces", sum(1 for i in range(len(pieces)) if plan["entries"][i % 16] == "file" and plan["chunks"][i % 16]))
    rep.count("eintr_fired", res.events.count("file_fault eintr"))
    rep.count("benign_calls", sum(1 for m in marks if m[0] == "benign"))
    # (1) rows
    reft = tables_of(RR[nhead + 1].kv())
    got = {}
    for kind, i, idx in marks:
        if kind != "tab":
            continue
        for n, tab in tables_of(R[idx].kv()).items():
            if not tab:
                continue
            heads = [c[1:] for c in tab[0]]
            for row in tab[1:]:
                got.setdefault(n, []).append(dict((h, c) for h, c in zip(heads, row) if c != "E"))
    nrows = 0
    for n in sorted(set(reft) | set(got)):
        rt = reft.get(n, [])
        rrows = []
        if rt:
            heads = [c[1:] for c in rt[0]]
            rrows = [dict((h, c) for h, c in zip(heads, row) if c != "E") for row in rt[1:]]
        # a row in which nothing was punched (a block redefined without any column) exists only as long as the call's table still has
        # columns from an earlier definition: such rows carry no data and are not counted on either side
        rrows = [r for r in rrows if r]
        grows = [r for r in got.get(n, []) if r]
        if len(rrows) != len(grows):
            rep.viol("rows", "C04:row_count", "%s: user number %d has %d data rows over the calls, %d in the single call" % (where, n, len(grows), len(rrows)))
            continue
        for ri, (a, b) in enumerate(zip(grows, rrows)):
            nrows += 1
            for h in set(a) | set(b):
                if h == "sim":
                    continue
                if a.get(h) != b.get(h):
                    rep.viol("rows", "C04:row_value", "%s: user number %d data row %d column %r: %r over the calls, %r in the single call" % (where, n, ri + 1, h, a.get(h, "<empty>"), b.get(h, "<empty>")))
                    break
            else:
                continue
            break
    rep.count("rows_compared", nrows)
    # (2) final dump, (3) components
    fidx = [idx for kind, i, idx in marks if kind == "final"][0]
    if R[fidx].f[0] != "0" or RR[nhead + 2].f[0] != "0":
        rep.viol("dump", "C04:dump_call_failed", "%s: DUMP -all returned %s (split) / %s (single)" % (where, R[fidx].f[0], RR[nhead + 2].f[0]))
    da, db_ = mask_dump(R[fidx + 2].f[0]), mask_dump(RR[nhead + 4].f[0])
    if da != db_:
        rep.viol("dump", "C04:final_state", "%s: DUMP -all after the split delivery differs from the single call: %s" % (where, first_diff(da, db_)))
    ca, cb = R[fidx + 1].kv().get("comps"), RR[nhead + 3].kv().get("comps")
    if ca != cb:
        rep.viol("components", "C04:components", "%s: component list %r vs %r" % (where, ca, cb))
    kinds = len(set(re.findall(r"^([A-Z_]+)_RAW", da, re.M)))
    if len(pieces) >= 2 and (nrows >= 1 or kinds >= 3):
        rep.distinct.append(hashlib.sha1(json.dumps([plan["inputs"], [len(p) for p in pieces], plan["entries"][:len(pieces)]]).encode()).hexdigest()[:12])
    rep.sample = {"inputs": plan["inputs"], "pieces": len(pieces), "entries": plan["entries"][:len(pieces)], "chunks": plan["chunks"][:len(pieces)], "rows_compared": nrows, "dump_bytes": len(da)}
    return rep


def shrink_candidates(plan):
    if plan.get("text"):
        sims = split_simulations(plan["text"])
        for i in range(len(sims)):
            if len(sims) > 2:
                yield dict(plan, text="".join(sims[:i] + sims[i + 1:]))
        lines = plan["text"].split("\n")
        for i in range(len(lines)):
            if lines[i].startswith(" ") and len(lines) > 4:
                yield dict(plan, text="\n".join(lines[:i] + lines[i + 1:]))
    if len(plan["inputs"]) > 1:
        for i in range(len(plan["inputs"])):
            c = dict(plan)
            c["inputs"] = plan["inputs"][:i] + plan["inputs"][i + 1:]
            yield c
    if len(plan["cut_frac"]) > 1 or plan["cut_all"]:
        for i in range(len(plan["cut_frac"])):
            c = dict(plan, cut_all=False)
            c["cut_frac"] = plan["cut_frac"][:i] + plan["cut_frac"][i + 1:]
            if c["cut_frac"]:
                yield c
    for key, val in (("entries", ["string"] * 16), ("chunks", [0] * 16), ("eintr", [0] * 16), ("benign", [0] * 16), ("sinks", False)):
        if plan[key] != val:
            c = dict(plan)
            c[key] = val
            yield c
