"""C05 — selected-output table, string, lines and file describe the same data.

A plan is 1-3 runs on one instance.  Inputs define 0-4 SELECTED_OUTPUT / USER_PUNCH blocks with arbitrary user
numbers, option sets, high precision on/off and USER_PUNCH programs punching numbers and strings with fewer,
equal or more values than headings; later runs redefine blocks, switch PRINT -selected_output, or only use them.
Per user number the file switch, string switch and file name are set through the API, and the current user
number during the run is drawn too.  The four views of one write path (value table, string, line accessors, file
captured by the simulated file layer) and the three bindings are treated as replicas that must agree.
A separate configuration fails the block's file sink (open failure, ENOSPC)."""
import hashlib, json, re
from common import *
from runner import Report, crash_violation
from simlib import FF
import streams
from streams import getline_split, parse_fslog, parse_table, NOTSET
import c13

PROP = "C05"
LEVEL = "exploration"
VARIANTS = ["asan"]
RULE = ("histories of 1-3 runs; generated inputs with 0-4 SELECTED_OUTPUT/USER_PUNCH blocks (user numbers from {1,2,3,5,10,77}, random option sets, "
        "high precision, USER_PUNCH with 0-6 headings and 0-7 punched values of which strings have lengths 0..26), batch reaction / advection rows, "
        "redefinition and PRINT -selected_output false in later simulations; per-user file/string switches, names and current user number drawn per run; "
        "every 6th plan faults one block's file sink. Non-trivial = at least one block with >= 2 data rows and a switch on; "
        "distinct = distinct (block shapes, switch vector, current number).")
COMPONENTS = {"real": "whole IPhreeqc library (C++ class, C binding, Fortran glue) from /repo's working tree (ASan+UBSan)",
              "stub": "libc file calls of sandbox files (capture, injected open failure / ENOSPC), clock() frozen"}
ASSUMPTIONS = ["a text cell corresponds to the table cell of the same position among the non-empty cells of the row; numbers are re-rendered in the text cell's own style and precision (no list of printf formats assumed)",
               "the text heading of a -totals column is the element name, the table heading carries the unit suffix (accepted as the same column)"]
REACH_PROBES = ["blocks_checked", "string_vs_table", "file_vs_string", "out_of_range_sweeps", "unknown_user_number", "binding_compared", "high_precision_blocks", "string_cells", "fault_fired"]
tiers = {"quick": dict(runs=6000, budget_s=150, workers=16), "thorough": dict(runs=60000, budget_s=1700, workers=16)}

USERNUMS = [1, 2, 3, 5, 10, 77]
SOL = "SOLUTION 1\n temp 25\n pH 7\n Na 1.5\n Cl 1\n Ca 0.6\n C 1.4\n"
BOOL_OPTS = ["simulation", "state", "solution", "distance", "time", "step", "pH", "pe", "reaction", "temperature", "alkalinity", "ionic_strength", "water", "charge_balance", "percent_error"]
LIST_OPTS = {"totals": ["Na", "Ca", "C(4)", "Cl", "Fe"], "molalities": ["Na+", "CaCO3", "HCO3-"], "activities": ["H+", "Ca+2"], "equilibrium_phases": ["Calcite", "Dolomite"],
             "saturation_indices": ["Calcite", "CO2(g)", "Halite"], "gases": ["CO2(g)"]}
STRS = ["", "a", "seven77", "twelve_chars", "thirteen_char", "Montmorillonite-Ca", "twenty_characters_xx", "twentyone_characters_", "a string of 26 characters.", "with space", "tab_free"]
NUMS = ["1.5", "-2", "0", "1e-30", "1e300", "-1e-300", "123456789.123456789", "TOT(\"Na\")", "STEP_NO", "-LA(\"H+\")", "SIM_NO", "1/3", "MOL(\"Ca+2\")", "1e15", "-0.0"]


def gen_block(rng, n):
    lines = ["SELECTED_OUTPUT %d" % n]
    reset = rng.choice([None, "true", "false", "false"])
    if reset:
        lines.append(" -reset %s" % reset)
    hp = rng.chance(40)
    if hp:
        lines.append(" -high_precision true")
    for o in rng.sample(BOOL_OPTS, rng.range(0, 5)):
        lines.append(" -%s %s" % (o, rng.choice(["true", "true", "false"])))
    for k in rng.sample(sorted(LIST_OPTS), rng.range(0, 3)):
        lines.append(" -%s %s" % (k, " ".join(rng.sample(LIST_OPTS[k], rng.range(1, len(LIST_OPTS[k]))))))
    fname = None
    if rng.chance(15):
        fname = "c05_input_named_%d.sel" % n
        lines.append(" -file %s" % fname)
    up = None
    if rng.chance(70):
        nh, nv = rng.range(0, 6), rng.range(0, 7)
        vals = [("\"%s\"" % rng.choice(STRS)) if rng.chance(40) else rng.choice(NUMS) for _ in range(nv)]
        up = {"headings": ["h%d_%d" % (n, i) for i in range(nh)], "values": vals}
        lines.append(" -user_punch true")
        lines.append("USER_PUNCH %d" % n)
        if nh:
            lines.append(" -headings " + " ".join(up["headings"]))
        lines.append(" -start")
        if nv:
            lines.append(" 10 PUNCH " + ", ".join(vals))
        else:
            lines.append(" 10 REM nothing punched")
        lines.append(" -end")
    return "\n".join(lines) + "\n", {"n": n, "hp": hp, "file": fname, "up": up}


def gen_input(rng, defined):
    """one input text; `defined`: user numbers defined by earlier runs (may be redefined or just used)"""
    nums = rng.sample(USERNUMS, rng.range(0, 4))
    if not defined and not nums and rng.chance(80):
        nums = [rng.choice(USERNUMS)]
    text, metas = "", []
    for n in nums:
        t, m = gen_block(rng, n)
        text += t
        metas.append(m)
    kind = rng.choice(["react", "react", "react2", "advect", "spec_only", "punch_off"])
    if kind == "react":
        text += SOL + "REACTION 1\n HCl 1\n 1 2 3 mmol\nEND\n"
    elif kind == "react2":
        text += SOL + "EQUILIBRIUM_PHASES 1\n Calcite 0 1\nSAVE solution 2\nEND\n"
        if rng.chance(50) and nums:
            t, m = gen_block(rng, nums[0])
            # a redefinition that names another file re-opens the file sink in the middle of the call (by design): the
            # file/string comparison is per call, so redefinitions keep the file they have
            t = "\n".join(l for l in t.split("\n") if not l.startswith(" -file")) + ("" if t.endswith("\n") is False else "")
            m["file"] = None
            m["redef"] = True
            text += t
            metas.append(m)
        text += "USE solution 2\nREACTION 2\n NaOH 1\n 0.5 1 mmol\nEND\n"
    elif kind == "advect":
        text += "SOLUTION 0\n Na 1\n Cl 1\nSOLUTION 1-3\n K 1\n N(5) 1\nADVECTION\n -cells 3\n -shifts 2\n -punch_cells 1-3\nEND\n"
    elif kind == "spec_only":
        text += SOL + "SOLUTION 2\n K 1\n Cl 1\nEND\n"
    else:
        text += "PRINT\n -selected_output false\n" + SOL + "END\nPRINT\n -selected_output true\nUSE solution 1\nREACTION 1\n NaCl 1\n 1 2 mmol\nEND\n"
    return text, metas, kind


def generate(rng, tier, index):
    runs = []
    defined = []
    uniform = rng.chance(60)
    son_all = rng.below(2) if not rng.chance(70) else 1
    for r in range(rng.range(1, 3)):
        text, metas, kind = gen_input(rng, defined)
        for m in metas:
            if m["n"] not in defined:
                defined.append(m["n"])
        sel = []
        for n in rng.sample(USERNUMS, rng.range(1, 5)):
            nm = "c05_api_named_%d_%d.sel" % (n, r) if rng.chance(30) else None
            sel.append([n, rng.below(2), son_all if uniform else rng.below(2), nm])
        runs.append({"text": text, "kind": kind, "blocks": [m["n"] for m in metas], "hp": [m["n"] for m in metas if m["hp"]], "redef": [m["n"] for m in metas if m.get("redef")], "sel": sel,
                     "cur": rng.choice(USERNUMS + [1, 1]), "entry": rng.choice(["string", "string", "file", "acc"])})
    plan = {"prop": PROP, "runs": runs, "fault": None, "fbuf": rng.choice([8, 30, 400])}
    if index % 6 == 4:
        plan["fault"] = {"kind": rng.choice(["open_fail", "write_enospc"]), "param": rng.choice([0, 1, 40, 500]), "run": rng.below(len(runs)), "n": rng.choice(USERNUMS)}
    return plan


def compile_plan(plan):
    ops = [["create", "1", "sim"], ["fbuf", str(plan["fbuf"])], call("cpp", "s1", "LoadDatabase", PHREEQC_DAT)]
    marks = {}
    for ri, run in enumerate(plan["runs"]):
        for n, fon, son, nm in run["sel"]:
            ops.append(call("cpp", "s1", "SetCurrentSelectedOutputUserNumber", n))
            ops.append(call("cpp", "s1", "SetSelectedOutputFileOn", fon))
            ops.append(call("cpp", "s1", "SetSelectedOutputStringOn", son))
            if nm:
                ops.append(call("cpp", "s1", "SetSelectedOutputFileName", nm))
        ops.append(call("cpp", "s1", "SetCurrentSelectedOutputUserNumber", run["cur"]))
        ops.append(["fs_log_clear"])
        f = plan.get("fault")
        if f and f["run"] == ri:
            ops.append(call("cpp", "s1", "SetCurrentSelectedOutputUserNumber", f["n"]))
            ops.append(call("cpp", "s1", "SetSelectedOutputFileOn", 1))
            ops.append(call("cpp", "s1", "SetSelectedOutputFileName", "c05_faulted_%d.sel" % ri))
            ops.append(call("cpp", "s1", "SetCurrentSelectedOutputUserNumber", run["cur"]))
            ops.append(["fs_fault", "c05_faulted_%d.sel" % ri, str(FF[f["kind"]]), str(f["param"]), "0"])
        marks[("pre", ri)] = len(ops)
        ops.append(["transcript", "cpp", "s1", "G"])
        if run["entry"] == "file":
            ops.append(["mkfile", "c05_in_%d.pqi" % ri, run["text"]])
            marks[("run", ri)] = len(ops)
            ops.append(call("cpp", "s1", "RunFile", "c05_in_%d.pqi" % ri))
        elif run["entry"] == "acc":
            for l in run["text"].split("\n"):
                ops.append(call("cpp", "s1", "AccumulateLine", l))
            marks[("run", ri)] = len(ops)
            ops.append(call("cpp", "s1", "RunAccumulated"))
        else:
            marks[("run", ri)] = len(ops)
            ops.append(call("cpp", "s1", "RunString", run["text"]))
        ops.append(["fs_clear"])
        marks[("fslog", ri)] = len(ops)
        ops.append(["fs_log"])
        marks[("cpp", ri)] = len(ops)
        ops.append(["transcript", "cpp", "s1", "GSLT"])
        marks[("c", ri)] = len(ops)
        ops.append(["transcript", "c", "s1", "SLT"])
        marks[("f", ri)] = len(ops)
        ops.append(["transcript", "f", "s1", "LT"])
        marks[("cpp2", ri)] = len(ops)
        ops.append(["transcript", "cpp", "s1", "T"])
        # unknown user number
        marks[("unknown", ri)] = len(ops)
        ops.append(call("cpp", "s1", "SetCurrentSelectedOutputUserNumber", 4242))
        ops.append(call("cpp", "s1", "GetSelectedOutputValue", 0, 0))
        ops.append(call("cpp", "s1", "GetSelectedOutputRowCount"))
        ops.append(call("cpp", "s1", "GetSelectedOutputColumnCount"))
        ops.append(call("c", "s1", "GetSelectedOutputValue2", 0, 0, 20))
        ops.append(call("f", "s1", "GetSelectedOutputValueF", 0, 1, 20))
        ops.append(call("cpp", "s1", "SetCurrentSelectedOutputUserNumber", run["cur"]))
    return ops, marks


def sweep_ops(nums_shapes):
    """out-of-range accessor sweep for every block: list of ops and the expectations"""
    ops, exp = [], []
    for n, rows, cols in nums_shapes:
        ops.append(call("cpp", "s1", "SetCurrentSelectedOutputUserNumber", n))
        exp.append(None)
        cells = []
        for r in (-2, -1, rows, rows + 1):
            for c in (0, max(cols - 1, 0)):
                cells.append((r, c, "-4"))
        for c in (-1, cols, cols + 3):
            cells.append((0, c, "-5" if rows > 0 else "-4"))
        for r, c, want in cells:
            ops.append(call("cpp", "s1", "GetSelectedOutputValue", r, c))
            exp.append((n, r, c, want))
            ops.append(call("c", "s1", "GetSelectedOutputValue2", r, c, 16))
            exp.append((n, r, c, want, "v2"))
    ops.append(["transcript", "cpp", "s1", "T"])
    exp.append("table")
    return ops, exp


def check_plan(ctx, plan):
    rep = Report()
    ops, marks = compile_plan(plan)
    res = ctx.execute("asan", [ops], timeout=120)
    if crash_violation(rep, res, "C05 history"):
        return rep
    R = {o.idx: o for o in res.client(0)}
    for o in res.client(0):
        if o.exc():
            rep.viol("exception", "C05:exception", "op %r raised %s" % ([x[:50] for x in ops[o.idx][:4]], o.exc()))
    f = plan.get("fault")
    nontrivial = False
    shapes_last = []
    for ri, run in enumerate(plan["runs"]):
        where = "run %d (%s via %s)" % (ri, run["kind"], run["entry"])
        ret = R[marks[("run", ri)]].f[0]
        post = R[marks[("cpp", ri)]].kv()
        kc, kf = R[marks[("c", ri)]].kv(), R[marks[("f", ri)]].kv()
        log = [e for e in parse_fslog(R[marks[("fslog", ri)]].f) if "w" in e["mode"] or "a" in e["mode"]]
        this_fault = bool(f) and f["run"] == ri
        if ret != "0":
            rep.count("runs_with_errors")
            continue          # generated inputs are error free by construction; a run that ends in an error (an unopenable -file under the injected fault)
                              # is outside the statement ("for every run ... that completes"); its stale line views are C09's finding KF3
        nums = [int(x) for x in post["selnums"].split(",") if x != ""]
        shapes_last = []
        for n in nums:
            p = "sel.%d." % n
            tab = parse_table(post.get(p + "table", ""))
            rows, cols = int(post[p + "rows"]), int(post[p + "cols"])
            shapes_last.append((n, rows, cols))
            rep.count("blocks_checked")
            if n in run["hp"]:
                rep.count("high_precision_blocks")
            streams.check_table_shape(rep, "table", n, post[p + "rows"], post[p + "cols"], tab, where)
            rep.count("string_cells", sum(1 for r in tab[1:] for c in r if c.startswith("S")))
            fon, son = post[p + "fileon"] == "1", post[p + "stringon"] == "1"
            s = post.get(p + "string", "")
            cur = post["cur"]
            faulted_block = this_fault and f["n"] == n
            # ---- string vs table, lines vs string --------------------------------------------------
            if son:
                if s == "" and len(tab) > 1:
                    key = "C05:sel_string_switch:user!=current" if str(n) != cur else "C05:string_enabled_but_empty"
                    rep.viol("enabled_sink_empty", key, "%s: block %d string switch on (current user number %s), table has %d data rows, string is empty" % (where, n, cur, len(tab) - 1))
                else:
                    streams.check_lines(rep, "lines", "Sel%d" % n, s, post[p + "lines"], post[p + "lc"], where)
                    if n not in run.get("redef", []):
                        # a redefinition of the block inside the call changes its headings in mid-table: the text of the call then holds two
                        # heading lines and the typed table the union of both column sets; the cell-by-cell mapping applies to one definition per call
                        streams.check_sel_string_vs_table(rep, "sel_text", n, s, tab, where)
                        rep.count("string_vs_table")
                    else:
                        rep.count("string_vs_table_skipped_redefinition")
                    if len(tab) > 2:
                        nontrivial = True
            else:
                if s not in ("", NOTSET["Sel"]) or post[p + "lc"] != "0":
                    key = "C05:sel_string_switch:user!=current" if str(n) != cur else "C05:string_disabled_but_filled"
                    rep.viol("disabled_sink", key, "%s: block %d string switch off (current user number %s) but its string holds %d bytes" % (where, n, cur, len(s)))
            # ---- file vs string / file vs table -------------------------------------------------------
            name = post[p + "filename"]
            es = [e for e in log if e["path"] == name]
            if n in run.get("redef", []):
                continue      # a redefinition inside the call re-opens (truncates) the block's file by design: the per-call file/string comparison does not apply
            if not fon and es:
                rep.viol("disabled_sink", "C05:file_disabled", "%s: block %d file switch off but %r was opened" % (where, n, name))
            if fon and not es and len(tab) > 1 and not faulted_block and run["kind"] != "punch_off":
                rep.viol("file_sink", "C05:file_missing", "%s: block %d file switch on, table has rows, but no file %r was opened; opened: %r" % (where, n, name, [e["path"] for e in log]))
            if fon and es and all(e["ok"] for e in es):
                data = "".join(e["data"] for e in es)
                if faulted_block:
                    pass    # what a full disk leaves in the file is decided by the C++ stream layer (a failed flush is retried from the start of its buffer); the other views are still checked above
                elif son and s != "":
                    if data != s:
                        sl = getline_split(s)
                        head = getline_split(data)[:1]
                        dedup = sl[1:] if (len(sl) > 1 and sl[:1] == head and sl[1:2] == head) else [l for i, l in enumerate(sl) if not (i > 0 and l == sl[i - 1] and [l] == head)]
                        key = "C05:file!=string"
                        if "\n".join(dedup) + "\n" == data:
                            key = "C05:duplicate_heading_in_string"
                            if re.search(r"-selected_output\s+false", split_simulations(run["text"])[0]):
                                key += ":punch_off_in_first_simulation"
                        rep.viol("file_vs_string", key, "%s: block %d file %r and string differ %s" % (where, n, name, first_diff(data, s)))
                    rep.count("file_vs_string")
                else:
                    # string sink off: the file is still the same data as the table
                    streams.check_sel_string_vs_table(rep, "sel_file_text", n, data, tab, where + " [file]")
                    rep.count("file_vs_table")
            if faulted_block and any(e["faults"] for e in es):
                rep.count("fault_fired")
            # ---- bindings ----------------------------------------------------------------------------
            ct, ft = kc.get(p + "table"), kf.get(p + "table")
            if ct != post.get(p + "table"):
                rep.viol("binding_mismatch", "C05:binding:c:table", "%s: block %d table through the C binding differs from the C++ one: %s" % (where, n, first_diff(ct or "", post.get(p + "table", ""))))
            if ft is not None:
                r2 = Report()
                c13.compare_table_f(r2, "C05", where, 1, p + "table", post.get(p + "table", ""), ft)
                for v in r2.violations:
                    rep.viol("binding_mismatch", "C05:binding:f:table", v["detail"])
            if kf.get(p + "rows") is not None:
                want = str(rows - 1) if rows > 0 else "0"
                if kf[p + "rows"] != want:
                    rep.viol("binding_mismatch", "C05:binding:f:rows", "%s: block %d RowCountF=%s, C++ RowCount=%d" % (where, n, kf[p + "rows"], rows))
            if kc.get(p + "string") != post.get(p + "string") or kc.get(p + "lines") != post.get(p + "lines"):
                rep.viol("binding_mismatch", "C05:binding:c:string", "%s: block %d string/lines through the C binding differ" % (where, n))
            rep.count("binding_compared")
        # second read of the tables must be identical (reading never changes them)
        post2 = R[marks[("cpp2", ri)]].kv()
        for n in nums:
            if post2.get("sel.%d.table" % n) != post.get("sel.%d.table" % n):
                rep.viol("table_changed", "C05:table_changed_by_reads", "%s: block %d table differs between two sweeps of the accessors" % (where, n))
        # ---- unknown user number -----------------------------------------------------------------------
        u = marks[("unknown", ri)]
        rc, var = R[u + 1].f[0], R[u + 1].f[1]
        rep.count("unknown_user_number")
        if rc != "-3" or not var.startswith("X"):
            key = "C05:unknown_user_number:var_untouched" if var == "E" else "C05:unknown_user_number"
            rep.viol("unknown_user", key, "%s: GetSelectedOutputValue for undefined user number 4242 returned %s with VAR %r (documented: VR_INVALIDARG and an error-typed VAR)" % (where, rc, var))
        if R[u + 2].f[0] != "0" or R[u + 3].f[0] != "0":
            rep.viol("unknown_user", "C05:unknown_user_number:counts", "%s: undefined user number has RowCount %s ColumnCount %s" % (where, R[u + 2].f[0], R[u + 3].f[0]))
        if R[u + 4].f[0] != "-3" or R[u + 5].f[0] != "-3":
            rep.viol("unknown_user", "C05:unknown_user_number:bindings", "%s: Value2 returned %s, ValueF returned %s for an undefined user number" % (where, R[u + 4].f[0], R[u + 5].f[0]))
        for k in (4, 5):
            if R[u + k].f[5] != "#" * 8:
                rep.viol("buffer_overrun", "C05:buffer_overrun", "%s: guard bytes overwritten by Value2/ValueF" % where)
    # ---- out-of-range sweep on the final state (needs the shapes, hence a second execution of the same history) ------------
    if shapes_last and R[marks[("run", len(plan["runs"]) - 1)]].f[0] == "0":
        sops, sexp = sweep_ops(shapes_last)
        res2 = ctx.execute("asan", [ops + sops], timeout=120)
        if crash_violation(rep, res2, "C05 out-of-range sweep"):
            return rep
        Q = res2.client(0)
        base = len(ops)
        before = R[marks[("cpp2", len(plan["runs"]) - 1)]].kv()
        for o in Q:
            if o.idx < base:
                continue
            e = sexp[o.idx - base]
            if e is None:
                continue
            if e == "table":
                kv = o.kv()
                for n, rows, cols in shapes_last:
                    if kv.get("sel.%d.table" % n) != before.get("sel.%d.table" % n):
                        rep.viol("table_changed", "C05:table_changed_by_invalid_access", "block %d: the table differs after the out-of-range accessor sweep" % n)
                continue
            rep.count("out_of_range_sweeps")
            n, r, c, want = e[:4]
            if len(e) == 4:
                rc, var = o.f[0], o.f[1]
                if rc != want or var != "X" + want:
                    rep.viol("out_of_range", "C05:out_of_range:%s" % ("row" if want == "-4" else "col"), "block %d: GetSelectedOutputValue(%d,%d) returned %s with VAR %r, documented %s and an error-typed VAR" % (n, r, c, rc, var, want))
            else:
                if o.f[0] != want:
                    rep.viol("out_of_range", "C05:out_of_range:value2", "block %d: GetSelectedOutputValue2(%d,%d) returned %s, documented %s" % (n, r, c, o.f[0], want))
                if o.f[5] != "#" * 8:
                    rep.viol("buffer_overrun", "C05:buffer_overrun", "block %d: guard bytes overwritten by GetSelectedOutputValue2(%d,%d)" % (n, r, c))
    if nontrivial:
        rep.distinct.append(hashlib.sha1(json.dumps([[r["blocks"], r["hp"], r["sel"], r["cur"], r["kind"]] for r in plan["runs"]]).encode()).hexdigest()[:12])
    rep.sample = {"runs": [{"kind": r["kind"], "blocks": r["blocks"], "high_precision": r["hp"], "sel": r["sel"], "cur": r["cur"], "entry": r["entry"]} for r in plan["runs"]], "fault": f}
    return rep


def shrink_candidates(plan):
    runs = plan["runs"]
    if len(runs) > 1:
        for i in range(len(runs)):
            c = dict(plan)
            c["runs"] = runs[:i] + runs[i + 1:]
            if c.get("fault"):
                fr = c["fault"]["run"]
                if fr == i:
                    c["fault"] = None
                else:
                    c["fault"] = dict(c["fault"], run=fr - (1 if fr > i else 0))
            yield c
    if plan.get("fault"):
        c = dict(plan)
        c["fault"] = None
        yield c
    for i, r in enumerate(runs):
        for j in range(len(r["sel"])):
            c = dict(plan)
            c["runs"] = runs[:i] + [dict(r, sel=r["sel"][:j] + r["sel"][j + 1:])] + runs[i + 1:]
            yield c
        if r["entry"] != "string":
            c = dict(plan)
            c["runs"] = runs[:i] + [dict(r, entry="string")] + runs[i + 1:]
            yield c
        # drop lines of the input text (keeps it a plan: the text is stored in the plan)
        lines = r["text"].split("\n")
        n = len(lines)
        size = max(1, n // 4)
        for a in range(0, n, size):
            nl = lines[:a] + lines[a + size:]
            c = dict(plan)
            c["runs"] = runs[:i] + [dict(r, text="\n".join(nl))] + runs[i + 1:]
            yield c
