"""C06 — deterministic results; isolated, thread-safe instances.

2-4 client threads (real pthreads under the seeded baton scheduler, tsan variant) each run a program of
instance lifecycles  create -> set switches -> load database -> run 1-3 inputs -> read everything ->
destroy  on their own instances, through the C++ or the C API, with workloads from every big engine
area, and call the API with permanently dead ids.

Oracles
 (a) ThreadSanitizer silent (data race, mutex misuse, lock-order inversion), attributed to the run
 (b) no deadlock; the run finishes within the step budget
 (c) ids unique in the run, larger than every id the process handed out before, dead ids answer
     IPQ_BADINSTANCE / the documented text
 (d) isolation: every client's observations equal those of the same program executed alone (one
     thread, no scheduler) in the same process afterwards
 (e) repeatability: the same program executed alone in a second process started with ASLR off, a
     padded environment and a shifted heap gives bitwise identical observations (tables as
     hexadecimal floating point)."""
import hashlib, json, re
from common import *
from runner import Report, crash_violation
from simlib import tsan_key
import workloads as W

PROP = "C06"
LEVEL = "exploration"
VARIANTS = ["tsan"]
RULE = ("plans of 2-4 client threads, each 1-3 instance lifecycles (C++ or C API, 1-2 instances alive per client, 1-3 workload inputs per "
        "lifecycle drawn from speciation/reaction/kinetics/transport/inverse/BASIC families, dead-id calls), schedule decided by the seeded "
        "scheduler (preempt_pct 2-60 per run, switch points at API boundaries, mutex lock/unlock, clock(), C allocations, file calls). "
        "Non-trivial = at least one preemption taken while the preempted client and another client were both inside a load or run call; "
        "distinct interleavings = distinct hashes of the (switch point kind, chosen client) sequence.")
COMPONENTS = {"real": "whole IPhreeqc library from /repo's working tree compiled with -fsanitize=thread; real pthreads; real pthread_mutex objects of the library",
              "stub": "thread scheduler (baton over relaxed atomics + futex, uninstrumented), pthread_mutex_lock/unlock entry wrappers, clock(), C allocation family entry wrappers, libc file calls of sandbox files"}
ASSUMPTIONS = ["TSan sees only instrumented code (libc/libstdc++ internals are not instrumented)",
               "clients never touch another client's live id (constructor publishes the id before initialisation finishes: outside the contract)",
               "transcripts are compared within one build variant only"]
REACH_PROBES = ["cross_thread_dead_ids", "inside_preemptions", "blocked_on_mutex", "dead_id_calls", "repeat_compared", "isolation_compared", "families:transport", "families:kinetics", "families:inverse", "families:basic"]
tiers = {"quick": dict(runs=320, budget_s=170, workers=16), "thorough": dict(runs=3000, budget_s=1700, workers=16)}
UNREPEATABLE_CLASSES = ()

BADINST = "-6"
DEAD_CALLS = [("GetOutputStringLineCount", "0"), ("RunString", BADINST), ("GetComponentCount", BADINST), ("SetOutputStringOn", BADINST),
              ("GetSelectedOutputRowCount", BADINST), ("LoadDatabase", BADINST), ("AccumulateLine", BADINST), ("GetErrorString", "GetErrorString: Invalid instance id.\n"),
              ("GetOutputString", ""), ("GetDumpFileName", ""), ("GetWarningString", "GetWarningString: Invalid instance id.\n"),
              ("DestroyRaw", BADINST)]


def generate(rng, tier, index):
    nclients = rng.range(2, 4)
    pool = W.FAST if rng.chance(70) else W.MEDIUM
    pool = pool + W.C06_ONLY * 2          # long-field workload: drawn about as often as two ordinary ones
    clients = []
    for c in range(nclients):
        r = rng.fork("c%d" % c)
        lifecycles = []
        for l in range(r.range(1, 3)):
            names = [r.choice(pool) for _ in range(r.range(1, 3))]
            # one database per lifecycle: inputs that need another database are replaced by ones of the first input's database
            dbp = W.db(names[0])
            names = [n if W.db(n) == dbp else r.choice(W.by_db(dbp, pool)) for n in names]
            # a kinetics definition left in cell 1 makes the many-cell transport examples run for minutes: transport inputs go first
            names.sort(key=lambda n: 0 if W.WORK[n]["family"] == "transport" else 1)
            lifecycles.append({"api": r.choice(["cpp", "cpp", "c"]), "inputs": names, "entry": [r.choice(["string", "file", "acc"]) for _ in names],
                               "outfile": r.chance(15), "logstr": r.chance(50), "dead": r.range(0, 2), "overlap": r.chance(30),
                               "dbstring": r.chance(15)})
        clients.append({"lifecycles": lifecycles, "clock_inc": r.choice([0, 0, 1, 1000, 250000]), "clock_jump": r.choice([0, 0, -2 ** 31, 2 ** 31])})
    # cross-thread dead ids: a client hands the id of an instance it has destroyed to a client with a higher index (waits only go
    # downwards, so they cannot form a cycle), which then uses that id: it must be as dead there as in the thread that destroyed it
    cross = []
    for c in range(nclients - 1):
        if rng.chance(60):
            cross.append({"from": c, "lifecycle": rng.below(len(clients[c]["lifecycles"])), "to": rng.range(c + 1, nclients - 1), "flag": len(cross),
                          "after": rng.below(3)})
    plan = {"prop": PROP, "clients": clients, "preempt": rng.choice([2, 5, 10, 25, 40, 60]), "sched_seed": rng.next() >> 1,
            "heap_pad": rng.choice([0, 4096, 120000]), "cross": cross}
    # first use in a process: one plan in four runs its threads in a newly started process, so that whatever the library sets up on
    # first use (tables, caches, function-local statics) is set up while the other threads are already running
    plan["fresh_process"] = rng.chance(25)
    # storm: every thread runs the same input at the same time (dense preemption), so that two threads are inside the same rarely
    # used code - and whatever static scratch state it may have - together
    if rng.chance(20):
        name = rng.choice(sorted(W.FAST) + W.C06_ONLY * 4)
        for c in clients:
            for lc in c["lifecycles"]:
                lc["inputs"] = [name] * len(lc["inputs"])
        plan["preempt"] = rng.choice([25, 40, 60])
        plan["storm"] = name
    for c in clients:
        for lc in c["lifecycles"]:
            lc["badload"] = rng.range(1, 3) if rng.chance(12) else 0
    return plan


BADLOADS = ["# nothing but a comment\nPHASES\n Brokenite\n Xx = Yy\n", "SOLUTION_MASTER_SPECIES\n H H+ -1 H 1.008\nSOLUTION_SPECIES\n H+ = H+\n log_k 0\n",
            "SOLUTION_MASTER_SPECIES\n E e- 0 0 0\nEND\n"]


def compile_client(prog, ci, plan):
    """-> (ops, marks): marks[i] = None or a tag naming the ops whose results are compared"""
    ops, marks = [], []

    def emit(op, mark=None):
        ops.append(op)
        marks.append(mark)

    emit(["clock", "1000000", str(prog["clock_inc"]), "40" if prog["clock_jump"] else "0", str(prog["clock_jump"])])
    if plan.get("storm"):
        emit(["gate", "1"])
    cross_out = [x for x in plan.get("cross", []) if x["from"] == ci]
    cross_in = [x for x in plan.get("cross", []) if x["to"] == ci]
    slot_of_lifecycle = {}
    slot = ci * 20
    open_slots = []
    deadslots = []
    for li, lc in enumerate(prog["lifecycles"]):
        slot += 1
        slot_of_lifecycle[li] = slot
        for x in cross_in:
            if x["after"] == li:
                emit(["await", str(x["flag"])])
                for fn, want in (("GetOutputFileOn", BADINST), ("SetDumpStringOn", BADINST), ("GetErrorString", "GetErrorString: Invalid instance id.\n"), ("RunString", BADINST), ("DestroyRaw", BADINST)):
                    args = {"RunString": ["SOLUTION 1\nEND\n"], "SetDumpStringOn": [1]}.get(fn, [])
                    emit(call("c", "f%d" % x["flag"], fn, *args), ("dead", want))
        b = lc["api"]
        t = "s%d" % slot
        tag = "L%d" % li
        emit(["create", str(slot), "sim" if b == "cpp" else "c"], ("create", slot))
        emit(call(b, t, "SetOutputStringOn", 1), "ret")
        emit(call(b, t, "SetErrorStringOn", 1), "ret")
        emit(call(b, t, "SetDumpStringOn", 1), "ret")
        if lc["logstr"]:
            emit(call(b, t, "SetLogStringOn", 1), "ret")
        if lc["outfile"]:
            emit(call(b, t, "SetOutputFileOn", 1), "ret")
        dbp = W.db(lc["inputs"][0])
        if lc.get("badload"):
            # a load that fails (legal use) before the real one: a text without master species reaches the paths for empty tables
            emit(call(b, t, "LoadDatabaseString", BADLOADS[lc["badload"] - 1]), "ret")
            emit(call(b, t, "GetErrorString"), "ret")
        if lc["dbstring"]:
            emit(call(b, t, "LoadDatabaseString", read_text(dbp)), "ret0")
        else:
            emit(call(b, t, "LoadDatabase", dbp), "ret0")
        # the per-user-number switches are reset by a load: they are set after it (set before it, no selected-output string is captured)
        for n in (1, 2):
            emit(call(b, t, "SetCurrentSelectedOutputUserNumber", n), "ret")
            emit(call(b, t, "SetSelectedOutputStringOn", 1), "ret")
            if lc["outfile"] and all(nm in W.CUSTOM for nm in lc["inputs"]):
                # only for inputs that name no files themselves: shipped examples write fixed file names (ex8: -file Zn1e_4, which it
                # then INCLUDE$s), and two clients running them in one directory would disturb each other through the file system
                emit(call(b, t, "SetSelectedOutputFileOn", 1), "ret")
        emit(call(b, t, "SetCurrentSelectedOutputUserNumber", 1), "ret")
        for k, name in enumerate(lc["inputs"]):
            for o in W.inc_ops(name):
                emit(o)
            txt = W.text(name)
            e = lc["entry"][k]
            if e == "string":
                emit(call(b, t, "RunString", txt), "run")
            elif e == "file":
                fn = "c06_c%d_l%d_%d.pqi" % (ci, li, k)
                emit(["mkfile", fn, txt])
                emit(call(b, t, "RunFile", fn), "run")
            else:
                for line in txt.split("\n"):
                    emit(call(b, t, "AccumulateLine", line))
                emit(call(b, t, "RunAccumulated"), "run")
            emit(["transcript", b, t, "SLTC"], "content")
        for d in range(lc["dead"]):
            fn, want = DEAD_CALLS[(li * 3 + d + ci) % len(DEAD_CALLS)]
            if deadslots and d % 2 == 0:
                tgt = "s%d" % deadslots[-1]
            else:
                tgt = "i%d" % [-1, -7, 1000000 + ci, 2147483647][(li + d) % 4]
            args = {"RunString": ["SOLUTION 1\nEND\n"], "SetOutputStringOn": [1], "LoadDatabase": [dbp], "AccumulateLine": ["END"]}.get(fn, [])
            emit(call("c", tgt, fn, *args), ("dead", want))
        open_slots.append((slot, b))
        if not lc["overlap"] or li == len(prog["lifecycles"]) - 1:
            for s2, b2 in open_slots:
                emit(["destroy", str(s2), "cpp" if b2 == "cpp" else "c"], "ret0")
                deadslots.append(s2)
            open_slots = []
            for x in cross_out:
                if slot_of_lifecycle.get(x["lifecycle"]) in deadslots and not x.get("_sent"):
                    emit(["signal", str(x["flag"]), str(slot_of_lifecycle[x["lifecycle"]])])
                    x["_sent"] = True
    for x in cross_in:          # waits whose lifecycle index does not exist in this client: at the end
        if x["after"] >= len(prog["lifecycles"]):
            emit(["await", str(x["flag"])])
            emit(call("c", "f%d" % x["flag"], "GetOutputFileOn"), ("dead", BADINST))
            emit(call("c", "f%d" % x["flag"], "DestroyRaw"), ("dead", BADINST))
    for x in cross_out:
        x.pop("_sent", None)
    if plan.get("storm"):
        emit(["gate", "read"], "gates")
    return ops, marks


CTR_SKIP = re.compile(r" mutex=\d+")


def norm_fields(f):
    return [CTR_SKIP.sub("", x) if x.startswith("ctr ") else x for x in f]


def observations(ops, marks, results):
    """comparable observations of one client: list of (op index, fields) for marked ops except create"""
    out = []
    for o in results:
        m = marks[o.idx]
        if m is None or m == "gates" or (isinstance(m, tuple) and m[0] == "create"):
            continue
        out.append((o.idx, norm_fields(o.f)))
    return out


def diff_obs(a, b):
    if len(a) != len(b):
        return "different number of observed operations: %d vs %d" % (len(a), len(b))
    for (i, fa), (j, fb) in zip(a, b):
        if fa != fb:
            for k, (x, y) in enumerate(zip(fa, fb)):
                if x != y:
                    label = fa[k - 1] if k % 2 == 1 and k > 0 else ""
                    return "op %d field %d (%s): %s" % (i, k, label, first_diff(x, y))
            return "op %d: %d vs %d fields" % (i, len(fa), len(fb))
    return None


def check_plan(ctx, plan):
    rep = Report()
    compiled = [compile_client(p, ci, plan) for ci, p in enumerate(plan["clients"])]
    clients = [c[0] for c in compiled]
    if plan.get("storm"):
        rep.count("storm_plans")
    if plan.get("fresh_process"):
        if "tsan" in ctx.ex:
            ctx.ex.pop("tsan").stop()
        rep.count("threads_in_fresh_process")
    exA = ctx.executor("tsan")
    res = ctx.execute("tsan", clients, preempt=plan["preempt"], max_steps=4000000, seed=plan["sched_seed"], timeout=120)
    if crash_violation(rep, res, "C06 concurrent run"):
        return rep
    rep.hashes.append(res.done.get("hash"))
    if int(res.done.get("budget", 0)):
        rep.inconclusive += 1
        rep.count("budget_exceeded")
    ntsan = int(res.done.get("tsan", 0))
    if ntsan:
        tail = exA.stderr_tail(6000)
        rep.viol("tsan", "tsan:" + tsan_key(tail), "ThreadSanitizer reported %d issue(s) during the concurrent run:\n%s" % (ntsan, tail[-3000:]))
    rep.count("cross_thread_dead_ids", sum(1 for ci2 in range(len(clients)) for o in res.client(ci2) if clients[ci2][o.idx][0] == "await" and o.f and o.f[0] == "received"))
    if "mutex_unlock_without_lock" in res.events:
        rep.count("unlock_without_lock")
        rep.viol("sync", "sync:mutex_unlock_without_lock", "a library mutex was unlocked by a thread that does not hold it (undefined for POSIX mutexes; it releases the lock under a thread that does hold it):\n"
                 + "\n".join(l for l in res.events.split("\n") if "mutex_unlock_without_lock" in l)[:600])
    inside = int(res.done.get("inside", 0))
    rep.count("inside_preemptions", inside)
    rep.count("blocked_on_mutex", int(res.done.get("blocked", 0)))
    rep.count("switch_points", int(res.done.get("steps", 0)))
    taken = [int(x) for x in res.done.get("taken", "0,0,0,0,0").split(",")]
    for k, n in zip(("api", "mutex", "clock", "alloc", "file"), taken):
        rep.count("preempt_at_" + k, n)
    # ---- ids ------------------------------------------------------------------------------------
    ids = []
    for ci, (ops, marks) in enumerate(compiled):
        mine = []
        for o in res.client(ci):
            m = marks[o.idx]
            if o.exc():
                rep.viol("exception", "exception:" + ops[o.idx][0], "client %d op %r raised %s" % (ci, ops[o.idx][:4], o.exc()))
            if isinstance(m, tuple) and m[0] == "create":
                mine.append(int(o.f[0]))
            elif isinstance(m, tuple) and m[0] == "dead":
                rep.count("dead_id_calls")
                if o.f[0] != m[1]:
                    rep.viol("dead_id", "dead_id:" + ops[o.idx][3], "client %d: %s with a dead id returned %r, documented %r" % (ci, ops[o.idx][3], o.f[0][:80], m[1]))
            elif m == "gates":
                rep.count("gates_passed", int(o.f[0]))
                rep.count("gates_passed_together", int(o.f[1]))
            elif m == "run":
                # a run may legitimately fail (sticky settings of an earlier input); what is demanded is equality with the solo run
                rep.count("runs")
                if o.f and o.f[0] != "0":
                    rep.count("runs_returning_errors")
            elif m == "ret0" and o.f and o.f[0] != "0":
                rep.viol("retcode", "retcode:" + ops[o.idx][3 if ops[o.idx][0] == "call" else 0], "client %d: %r returned %s in the concurrent run" % (ci, [x[:40] for x in ops[o.idx][:4]], o.f[0]))
        if mine != sorted(mine):
            rep.viol("ids", "ids:not_increasing", "client %d received ids %r" % (ci, mine))
        ids += mine
    if len(set(ids)) != len(ids) or any(i < 0 for i in ids):
        rep.viol("ids", "ids:duplicate", "ids handed out in one run are not unique: %r" % sorted(ids))
    if ids and min(ids) <= exA.max_id:
        rep.viol("ids", "ids:reused", "id %d was handed out although this process had already handed out id %d" % (min(ids), exA.max_id))
    if ids:
        exA.max_id = max(exA.max_id, max(ids))
    # ---- isolation and repeatability ---------------------------------------------------------------
    exB = ctx.executor("tsan", "B")
    for ci, (ops, marks) in enumerate(compiled):
        conc = observations(ops, marks, res.client(ci))
        solo = ctx.execute("tsan", [ops], timeout=120)
        if crash_violation(rep, solo, "C06 solo run of client %d" % ci):
            return rep
        if int(solo.done.get("tsan", 0)):
            rep.viol("tsan", "tsan:solo:" + tsan_key(exA.stderr_tail(6000)), "ThreadSanitizer report in a single-threaded run:\n" + exA.stderr_tail(3000))
        sids = [int(o.f[0]) for o in solo.client(0) if isinstance(marks[o.idx], tuple) and marks[o.idx][0] == "create"]
        if sids and min(sids) <= exA.max_id:
            rep.viol("ids", "ids:reused", "solo run: id %d handed out after id %d" % (min(sids), exA.max_id))
        if sids:
            exA.max_id = max(exA.max_id, max(sids))
        so = observations(ops, marks, solo.client(0))
        d = diff_obs(conc, so)
        rep.count("isolation_compared")
        if d:
            rep.viol("isolation", "isolation:" + diff_class(d), "client %d: observations in the concurrent run differ from the same program run alone: %s" % (ci, d))
        # repeatability: other process, ASLR off, padded environment, shifted heap
        pre = [["heap_pad", str(plan.get("heap_pad", 0))]] if plan.get("heap_pad") else []
        rb = ctx.execute("tsan", [pre + ops], alt="B", timeout=120)
        if crash_violation(rep, rb, "C06 repeat run of client %d (second process)" % ci):
            return rep
        shift = len(pre)
        bo = [(o.idx - shift, norm_fields(o.f)) for o in rb.client(0) if o.idx >= shift and marks[o.idx - shift] is not None and marks[o.idx - shift] != "gates"
              and not (isinstance(marks[o.idx - shift], tuple) and marks[o.idx - shift][0] == "create")]
        d = diff_obs(so, bo)
        rep.count("repeat_compared")
        if d:
            rep.viol("repeatability", "repeatability:" + diff_class(d), "client %d: the same program gives different observations in a second process (ASLR off, padded environment, heap shifted by %s): %s" % (ci, plan.get("heap_pad"), d))
    fams = set()
    for p in plan["clients"]:
        for lc in p["lifecycles"]:
            for n in lc["inputs"]:
                fams.add(W.WORK[n]["family"])
    for f in fams:
        rep.count("families:" + f)
    if inside > 0:
        rep.distinct.append(res.done.get("hash"))
    rep.count("client_threads", len(clients))
    rep.sample = {"clients": [[{"api": lc["api"], "inputs": lc["inputs"]} for lc in p["lifecycles"]] for p in plan["clients"]],
                  "preempt_pct": plan["preempt"], "switch_points": res.done.get("steps"), "preemptions_inside_calls": inside}
    return rep


def diff_class(d):
    m = re.search(r"\((\w[\w.]*)\)", d)
    return (m.group(1).split(".")[0] if m else "other")


def shrink_candidates(plan):
    cl = plan["clients"]
    if len(cl) > 2:
        for i in range(len(cl)):
            c = dict(plan)
            c["clients"] = cl[:i] + cl[i + 1:]
            yield c
    for ci, p in enumerate(cl):
        lcs = p["lifecycles"]
        if len(lcs) > 1:
            for i in range(len(lcs)):
                c = dict(plan)
                c["clients"] = cl[:ci] + [dict(p, lifecycles=lcs[:i] + lcs[i + 1:])] + cl[ci + 1:]
                yield c
        for li, lc in enumerate(lcs):
            if len(lc["inputs"]) > 1:
                for k in range(len(lc["inputs"])):
                    nl = dict(lc, inputs=lc["inputs"][:k] + lc["inputs"][k + 1:], entry=lc["entry"][:k] + lc["entry"][k + 1:])
                    c = dict(plan)
                    c["clients"] = cl[:ci] + [dict(p, lifecycles=lcs[:li] + [nl] + lcs[li + 1:])] + cl[ci + 1:]
                    yield c
            if lc["dead"] or lc["outfile"] or lc["dbstring"]:
                nl = dict(lc, dead=0, outfile=False, dbstring=False)
                c = dict(plan)
                c["clients"] = cl[:ci] + [dict(p, lifecycles=lcs[:li] + [nl] + lcs[li + 1:])] + cl[ci + 1:]
                yield c
