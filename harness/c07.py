"""C07 — a successful LoadDatabase returns the instance to the fresh state.

History = 0-3 successful segments (optional load of some database, setter calls, 1-3 inputs chosen to
flip sticky state) followed by at most one *failing* call, then LoadDatabase / LoadDatabaseString,
a getter sweep, post-load setter calls and 1-3 probe inputs whose output is sensitive to sticky state.

Failing-call kinds are the crash points of this library:
  abort   the k-th message of a class (output/log/punch/screen/warning/any) raises the library's own
          stop exception at that instant (inside reading, speciation, kinetics, transport, inverse...)
  alloc   the k-th C allocation inside the call returns NULL
  input   genuine failures (syntax/semantic error in a later simulation, convergence failure,
          missing include file, unopenable dump file)
  eio     the input file of RunFile fails with EIO / ends at byte N
  load    a failed LoadDatabase (missing file, truncated database, database with additions and an error)

Oracle: everything observable after the load (getter sweep, strings, lines, tables, components, the
file layer's record of what the probe calls opened, with which mode, how many bytes) equals what a
newly created instance gives after the same setter calls, the same load and the same later calls;
ASan/UBSan silent throughout."""
import hashlib, json, re
from common import *
from runner import Report, crash_violation
from simlib import FF
from streams import parse_fslog
import workloads as W

PROP = "C07"
LEVEL = "fault_enumeration"
VARIANTS = ["asan"]
RULE = ("histories of 0-3 successful segments (database from {phreeqc, pitzer, sit, wateq4f, iso, ex15}, global and per-user setter calls, inputs that flip "
        "sticky state: PRINT/KNOBS/TRANSPORT/ADVECTION parameters, output definitions, database additions, BASIC storage, hot model caches, "
        "DUMP/COPY/DELETE/RUN_CELLS reader state) followed by at most one failing call (abort at the k-th message of a class, k-th allocation NULL, "
        "input error, EIO/EOF in RunFile, failed database load) with k spread over the whole call, then a load and 1-3 probes. "
        "Non-trivial = the history left observable state behind (its pre-load transcript differs from a fresh instance's) and, if a fault was planned, it fired "
        "and the call returned non-zero; distinct = distinct (history pieces, fault kind and position bucket, database, probes).")
COMPONENTS = {"real": "whole IPhreeqc library from /repo's working tree (ASan+UBSan), the library's own stop exception and unwind path",
              "stub": "abort injector (subclass overriding the virtual message sinks), C allocation family wrappers, libc file calls of sandbox files, clock() frozen"}
ASSUMPTIONS = ["the reference is a second execution of the real code on a fresh instance in the same process",
               "instance ids in default file names are masked before comparison",
               "leaks after an injected stop are counted, not flagged"]
REACH_PROBES = ["fault_fired:abort", "fault_fired:alloc", "fault_fired:input", "fault_fired:eio", "fault_fired:load", "abort_inside:transport", "abort_inside:kinetics",
                "abort_inside:inverse", "abort_inside:reading", "history_nontrivial", "probe_compared"]
tiers = {"quick": dict(runs=920, budget_s=240, workers=16), "thorough": dict(runs=14000, budget_s=1700, workers=16)}

DBS = {"phreeqc": PHREEQC_DAT, "pitzer": os.path.join(DBDIR, "pitzer.dat"), "sit": os.path.join(DBDIR, "sit.dat"),
       "wateq4f": os.path.join(DBDIR, "wateq4f.dat"), "iso": os.path.join(DBDIR, "iso.dat"), "ex15": os.path.join(EXDIR, "ex15.dat")}

S1 = "SOLUTION 1\n temp 25\n pH 7.1\n Na 2\n Cl 1.5\n Ca 0.8\n C 1.6\n S(6) 0.3\n K 0.2\n Mg 0.1\n"

# ---- history pieces that flip sticky state (DESIGN appendix A) ---------------------------------------------------
STICKY = {
    "h_print": "PRINT\n -reset false\n -species true\n -totals false\n -saturation_indices false\n -headings false\n -warnings 0\n -echo_input false\n" + S1 + "END\n",
    "h_print2": "PRINT\n -alkalinity true\n -equilibrium_phases false\n -exchange false\n -surface false\n -user_print false\n -status false\n" + S1 + "END\n",
    "h_knobs": "KNOBS\n -iterations 150\n -convergence_tolerance 1e-10\n -tolerance 1e-14\n -step_size 5\n -pe_step_size 2\n -diagonal_scale true\n -logfile true\n -debug_model false\n" + S1 + "EQUILIBRIUM_PHASES 1\n Calcite 0 1\nEND\n",
    "h_knobs2": "KNOBS\n -iterations 60\n -step_size 3\n -numerical_derivatives true\n -tries 3\n" + S1 + "END\n",
    "h_transport": "SOLUTION 0\n Na 1\n Cl 1\nSOLUTION 1-5\n K 1\n N(5) 1\nTRANSPORT\n -cells 4\n -shifts 3\n -time_step 500\n -flow_direction back\n -boundary_conditions constant closed\n -lengths 4*0.05\n"
                   " -dispersivities 4*0.01\n -diffusion_coefficient 1e-9\n -correct_disp true\n -thermal_diffusion 3 1e-6\n -punch_frequency 3\n -print_frequency 3\n -punch_cells 2-3\n -print_cells 2\n -warnings false\nEND\n",
    "h_transport_mcd": "SOLUTION 0\n Na 1\n Cl 1\nSOLUTION 1-3\n K 1\n Cl 1\nTRANSPORT\n -cells 3\n -shifts 2\n -time_step 100\n -multi_d true 1e-9 0.3 0.05 1.0\n -boundary_conditions constant closed\n -lengths 3*0.01\nEND\n",
    "h_adv": "SOLUTION 0\n Na 1\n Cl 1\nSOLUTION 1-3\n K 1\n Cl 1\nADVECTION\n -cells 3\n -shifts 4\n -time_step 77\n -initial_time 1000\n -punch_cells 2\n -print_cells 3\n -punch_frequency 2\n -print_frequency 2\n -warnings false\nEND\n",
    "h_incr": "RATES\n r1\n -start\n 10 SAVE parm(1) * TIME\n -end\n" + S1 + "KINETICS 1\n r1\n -formula NaCl 1\n -m0 1\n -parms 1e-7\n -steps 100 200 300\nINCREMENTAL_REACTIONS true\nEND\nRUN_CELLS\n -cells 1\n -time_step 50\n -start_time 500\nEND\n",
    "h_selout": "SELECTED_OUTPUT 1\n -reset false\n -pH\n -totals Na\nUSER_PUNCH 1\n -headings h1 h2\n10 PUNCH 1, 2\nSELECTED_OUTPUT 2\n -high_precision true\n -reset false\n -molalities Ca+2\nSELECTED_OUTPUT 7\n -file c07_so7.sel\n -reset true\n"
                "USER_PRINT\n10 PRINT \"user print was here\", TOT(\"Na\")\n" + S1 + "END\n",
    "h_dbadd": "SOLUTION_MASTER_SPECIES\n Zz Zz+ 0 Zz 90\nSOLUTION_SPECIES\n Zz+ = Zz+\n log_k 0\n Zz+ + Cl- = ZzCl\n log_k 1.5\nPHASES\n Zzite\n ZzCl = Zz+ + Cl-\n log_k -2\n"
               "RATES\n zrate\n -start\n 10 SAVE 1e-9 * TIME\n -end\nCALCULATE_VALUES\n zcalc\n -start\n 10 SAVE 42\n -end\nNAMED_EXPRESSIONS\n zexpr\n log_k 1.25\n"
               "EXCHANGE_MASTER_SPECIES\n Yx Yx-\nEXCHANGE_SPECIES\n Yx- = Yx-\n log_k 0\n Na+ + Yx- = NaYx\n log_k 0\n" + S1 + " Zz 0.5\nEQUILIBRIUM_PHASES 1\n Zzite 0 0.01\nEND\n",
    "h_hot": "SOLUTION 1\n temp 90\n pressure 100\n pH 6\n Na 100\n Cl 100\n Ca 5\n C 2\n Sr 0.1\nEQUILIBRIUM_PHASES 1\n Calcite 0 0.1\nSURFACE 1\n Hfo_w 1e-3 600 1\n -equilibrate 1\n"
             "GAS_PHASE 1\n -fixed_volume\n -volume 1\n CO2(g) 0.1\nSOLID_SOLUTIONS 1\n CaSr\n -comp Calcite 0.01\n -comp Strontianite 0.001\nSAVE solution 9\nEND\n",
    "h_basic": S1 + "USER_PUNCH 1\n -headings p\n10 PUT(123.5, 1, 2)\n20 PUT(7, 3)\n30 PUNCH GET(1, 2)\nSELECTED_OUTPUT 1\n -reset false\nEND\n",
    "h_title_copy": "TITLE sticky title line\n" + S1 + "EXCHANGE 1\n X 0.01\n -equilibrate 1\nSAVE solution 5-6\nEND\nCOPY solution 1 11-12\nCOPY cell 1 20\nEND\nDELETE\n -solution 12\nEND\nRUN_CELLS\n -cells 1\nEND\n",
    "h_dump_append": S1 + "DUMP\n -append true\n -file c07_dump_hist.txt\n -solution 1\nEND\n",
    "h_dump_all": S1 + "DUMP\n -all\nEND\n",
    "h_print_off": "PRINT\n -selected_output false\n -dump false\n" + S1 + "SELECTED_OUTPUT 1\n -reset false\n -pH\nDUMP\n -solution 1\nEND\n",
    "h_stagnant": "SOLUTION 0\n Na 1\n Cl 1\nSOLUTION 1-2\n K 1\n Cl 1\nSOLUTION 4-5\n K 1\n Cl 1\nTRANSPORT\n -cells 2\n -shifts 2\n -time_step 1000\n -stagnant 1 6.8e-6 0.3 0.1\nEND\n",
    "h_blocks": "MEAN_GAMMAS\n Zsalt Na+ 1 Cl- 1\nRATE_PARAMETERS_PK\n Zmin -30 0 0 -13.4 90.9 -30 0 0\nGAS_BINARY_PARAMETERS\n CO2(g) N2(g) 0.5\n" + S1 + "USER_PRINT\n10 PRINT MEANG(\"Zsalt\"), RATE_PK(\"Zmin\")\nEND\n",
    "h_isotopes": None,    # ex20a on iso.dat (filled below)
}
for _n in W.WORK:
    STICKY.setdefault(_n, None)
HIST_DB = {k: "phreeqc" for k in STICKY}
for _n in W.WORK:
    for _k, _p in DBS.items():
        if W.db(_n) == _p:
            HIST_DB[_n] = _k
HIST_DB["h_isotopes"] = "iso"
HIST_EXTRA = {"pitzer": ["h_pz"], "sit": ["h_sit"], "wateq4f": ["h_print", "h_knobs", "h_selout", "h_basic", "h_hot"]}
STICKY["h_pz"] = "SOLUTION 1\n temp 30\n Na 1000\n Cl 1000\n Ca 50\n S(6) 50\nEQUILIBRIUM_PHASES 1\n Gypsum 0 0\nEND\n"
HIST_DB["h_pz"] = "pitzer"
STICKY["h_sit"] = "SOLUTION 1\n Na 500\n Cl 500\nEND\n"
HIST_DB["h_sit"] = "sit"


def hist_text(name):
    if name == "h_isotopes":
        return example_text("ex20a")
    t = STICKY.get(name)
    return t if t is not None else W.text(name)


def hist_inc(name):
    return W.inc_ops(name) if name in W.WORK else []


def pieces_for(dbkey):
    out = [k for k, v in HIST_DB.items() if v == dbkey]
    if dbkey == "wateq4f":
        out += HIST_EXTRA["wateq4f"]
    return sorted(set(out))


FAST_HIST = set(W.FAST) | set(k for k in STICKY if k.startswith("h_"))

# ---- probes --------------------------------------------------------------------------------------------
PROBES = {
    "p_full": S1 + "EQUILIBRIUM_PHASES 1\n Calcite 0 1\n CO2(g) -2 1\nREACTION 1\n NaCl 1\n 1 2 mmol\nEND\n",
    "p_transport": "SOLUTION 0\n Na 1\n Cl 1\nSOLUTION 1-3\n K 1\n N(5) 1\nSELECTED_OUTPUT 1\n -totals Na K\nTRANSPORT\n -cells 3\n -shifts 2\nEND\n",
    "p_advection": "SOLUTION 0\n Na 1\n Cl 1\nSOLUTION 1-3\n K 1\n N(5) 1\nSELECTED_OUTPUT 1\n -totals Na K\nADVECTION\n -cells 3\n -shifts 2\nEND\n",
    "p_basic": S1 + "SELECTED_OUTPUT 1\n -reset false\nUSER_PUNCH 1\n -headings e12 g12 e3 g3 sim tt\n10 PUNCH EXISTS(1, 2), GET(1, 2), EXISTS(3), GET(3), SIM_NO, TOTAL_TIME\nEND\n",
    "p_kin": "RATES\n pr\n -start\n 10 SAVE parm(1) * TIME\n -end\n" + S1 + "KINETICS 1\n pr\n -formula KCl 1\n -m0 1\n -parms 1e-7\n -steps 100 200\n"
             "SELECTED_OUTPUT 1\n -reset false\n -time\n -step\n -totals K\nUSER_PUNCH 1\n -headings tt st\n10 PUNCH TOTAL_TIME, SIM_TIME\nEND\n",
    "p_dump": S1 + "EXCHANGE 1\n X 0.01\n -equilibrate 1\nSAVE solution 2\nDUMP\n -all\nEND\n",
    "p_added_names": "SOLUTION 1\n Na 1\n Cl 1\n Zz 0.5\nEQUILIBRIUM_PHASES 1\n Zzite 0 0\nEND\n",
    "p_added_rate": S1 + "KINETICS 1\n zrate\n -formula NaCl 1\n -m0 1\n -steps 10\nEND\n",
    "p_added_calc": S1 + "USER_PRINT\n10 PRINT CALC_VALUE(\"zcalc\")\nEND\n",
    "p_use_old": "USE solution 1\nUSE exchange 1\nEND\n",
    "p_meang_db": S1 + "USER_PRINT\n10 PRINT MEANG(\"CaCl2\")\nEND\n",
    "p_meang_added": S1 + "USER_PRINT\n10 PRINT MEANG(\"Zsalt\")\nEND\n",
    "p_ratepk_added": S1 + "USER_PRINT\n10 PRINT RATE_PK(\"Zmin\")\nEND\n",
    "p_run_cells": "RUN_CELLS\n -cells 1\nEND\n",
    "p_hard": "SOLUTION 1\n pH 7\n pe 4\n Fe 1\n S(6) 1\n Na 10\n Cl 10\n C 2\nEQUILIBRIUM_PHASES 1\n Pyrite 0 0\n Goethite 0 0\n Calcite 0 1\n CO2(g) -3.5 10\nEND\n",
    "p_nosel": S1 + "END\n",
    "p_surface": S1 + "SURFACE 1\n Hfo_w 1e-3 600 1\n -equilibrate 1\nEND\n",
}
ERR_PROBES = ("p_added_names", "p_added_rate", "p_use_old", "p_meang_db", "p_meang_added", "p_ratepk_added")
PROBES_ANYDB = ["p_nosel", "p_basic", "p_use_old", "p_run_cells", "p_dump"]
PROBE_KEYS = sorted(PROBES)

# ---- failing inputs -------------------------------------------------------------------------------------
BAD_INPUTS = {
    "syntax_late": S1 + "EQUILIBRIUM_PHASES 1\n Calcite 0 1\nSAVE solution 2\nEND\nSELECTED_OUTPUT 3\n -reset false\n -pH\nKNOBS\n -iterations 33\nPRINT\n -bogus_option true\nEND\n",
    "unknown_element": S1 + "END\nUSE solution 1\nREACTION 1\n Unobtainium 1\n 1 mmol\nEND\n",
    "undefined_use": S1 + "END\nUSE solution 99\nREACTION 1\n NaCl 1\n 1 mmol\nEND\n",
    "bad_basic": S1 + "USER_PUNCH 1\n -headings a\n10 PUNCH TOT(\"Na\"\n20 FOR i = 1 TO\nSELECTED_OUTPUT 1\n -reset false\nEND\n",
    "basic_runtime": S1 + "USER_PRINT\n10 DIM a(3)\n20 PRINT a(7)\nEND\n",
    "missing_include": S1 + "END\nINCLUDE$ c07_no_such_include.pqi\nEND\n",
    "bad_dump_file": S1 + "DUMP\n -file /nonexistent_dir_c07/sub/dump.out\n -all\nEND\n",
    "conv_fail": None,
    "bad_transport": "SOLUTION 0-2\n Na 1\n Cl 1\nTRANSPORT\n -cells 5\n -shifts 2\n -lengths 7*1\nEND\n",
    "bad_phase": S1 + "EQUILIBRIUM_PHASES 1\n Nonexistentite 0 1\nEND\n",
    # rows without a Number column wait in a side list until tidy_solutions; the PHASES error stops tidy_model before that
    "spread_unnumbered": "SOLUTION_SPREAD\n -units mmol/kgw\npH\tCa\tNa\tCl\n6.2\t0.078\t0.134\t0.014\n6.8\t0.26\t0.259\t0.03\nPHASES\n Brokenite\n Xx = Yy\n log_k 0\nEND\n",
    "include_fail_mid": None,
    "include_nested_missing": None,
}
INCLUDE_TRAILER = ("PHASES\n Calcite\n CaCO3 = CO3-2 + Ca+2\n log_k -7.0\nSOLUTION_SPECIES\n Ca+2 + Cl- = CaCl+\n log_k 2.5\nKNOBS\n -step_size 3\nSELECTED_OUTPUT 4\n -reset false\n -pH\nSOLUTION 60\n Ca 5\n Cl 10\n")


def bad_text(k):
    if k == "conv_fail":
        return read_text(os.path.join(REPO, "gtest", "conv_fail.in"))
    return BAD_INPUTS[k]


DB_ADDITIONS = ("SOLUTION_MASTER_SPECIES\n Zz Zz+ 0 Zz 90\nSOLUTION_SPECIES\n Zz+ = Zz+\n log_k 0\n Ca+2 + Cl- = CaCl+\n log_k 2.5\nPHASES\n Zzite\n ZzCl = Zz+ + Cl-\n log_k -2\n"
                "RATES\n zrate\n -start\n 10 SAVE 1e-9 * TIME\n -end\nCALCULATE_VALUES\n zcalc\n -start\n 10 SAVE 42\n -end\nSOLUTION_SPECIES\n Mg+2 + Cl- = MgCl+\n log_k o.6\n")

SETTERS = ["OutputFileOn", "OutputStringOn", "LogFileOn", "LogStringOn", "ErrorFileOn", "ErrorStringOn", "DumpFileOn", "DumpStringOn", "ErrorOn"]
NAMESET = ["OutputFileName", "LogFileName", "ErrorFileName", "DumpFileName"]


def gen_setters(rng, n):
    out = []
    for _ in range(n):
        r = rng.below(10)
        if r < 5:
            out.append(["Set" + rng.choice(SETTERS), rng.below(2)])
        elif r < 7:
            out.append(["Set" + rng.choice(NAMESET), "c07_%d.txt" % rng.below(4)])
        elif r < 8:
            out.append(["SetCurrentSelectedOutputUserNumber", rng.choice([1, 2, 3, 7])])
        elif r < 9:
            out.append(["SetSelectedOutput" + rng.choice(["FileOn", "StringOn"]), rng.below(2)])
        else:
            out.append(["SetSelectedOutputFileName", "c07_sel_%d.txt" % rng.below(3)])
    return out


ENUM_INPUTS = [("w_spec", "abort"), ("w_react", "abort"), ("h_selout", "abort"), ("w_calcval", "abort"), ("w_gas_ss", "abort"), ("h_title_copy", "abort"),
               ("w_kin_rk", "alloc"), ("w_basic", "alloc"), ("w_adv", "alloc"), ("w_kin_cvode", "abort"), ("w_kin_cvode", "alloc"), ("w_trans", "abort"), ("w_inverse", "abort")]
ENUM_SPAN = 520
QUICK_STRATA = 40


def generate(rng, tier, index):
    plan = generate_random(rng, tier, index)
    enum = None
    if tier == "thorough" and index < len(ENUM_INPUTS) * ENUM_SPAN:
        # exhaustive part: every crash index of a short run (every message / every allocation), one per plan
        enum = (ENUM_INPUTS[index // ENUM_SPAN], index % ENUM_SPAN + 1)
    elif tier == "quick" and index < len(ENUM_INPUTS) * QUICK_STRATA:
        # stratified part: the same crash-index ranges cut into strata of ENUM_SPAN / QUICK_STRATA consecutive indices, one seeded
        # sample per stratum, so that any window of that many consecutive crash points is hit at least once per quick run
        w = ENUM_SPAN // QUICK_STRATA
        enum = (ENUM_INPUTS[index // QUICK_STRATA], (index % QUICK_STRATA) * w + rng.below(w) + 1)
    if enum:
        (name, kind), k_abs = enum
        plan["fault"] = {"kind": kind, "input": name, "cls": "any", "frac": 0.0, "k_abs": k_abs}
        if not plan["segments"]:
            plan["segments"].append({"db": "phreeqc", "dbstring": False, "setters": [], "inputs": [], "entries": []})
        for sg in plan["segments"]:
            if sg["db"] not in (None, "phreeqc"):
                sg["db"] = "phreeqc"
            sg["inputs"] = [n for n in sg["inputs"] if HIST_DB.get(n) == "phreeqc"]
            sg["entries"] = sg["entries"][:len(sg["inputs"])]
        if plan["segments"][0]["db"] is None:
            plan["segments"][0]["db"] = "phreeqc"
    return plan


def generate_random(rng, tier, index):
    segs = []
    for s in range(rng.range(0, 3)):
        dbk = rng.choice(["phreeqc", "phreeqc", "phreeqc", "wateq4f", "pitzer", "sit", "iso"]) if (s == 0 or rng.chance(40)) else None
        segs.append({"db": dbk, "dbstring": rng.chance(15), "setters": gen_setters(rng, rng.range(0, 4)), "inputs": [], "entries": []})
    cur = None
    for sg in segs:
        if sg["db"]:
            cur = sg["db"]
        elif cur is None:
            sg["db"] = cur = "phreeqc"
        pool = [p for p in pieces_for(cur) if p in FAST_HIST or rng.chance(30)]
        if not pool:
            pool = pieces_for(cur) or ["h_print"]
        for _ in range(rng.range(1, 3)):
            sg["inputs"].append(rng.choice(pool))
            sg["entries"].append(rng.choice(["string", "string", "file", "acc"]))
    fault = None
    r = rng.below(100)
    dbnow = cur or "phreeqc"
    if r < 30:
        pool = pieces_for(dbnow) if segs else pieces_for("phreeqc")
        fault = {"kind": "abort", "input": rng.choice(pool), "cls": rng.choice(["log", "log", "output", "any", "any", "punch", "screen", "warning"]), "frac": rng.uniform()}
    elif r < 48:
        pool = pieces_for(dbnow) if segs else pieces_for("phreeqc")
        fault = {"kind": "alloc", "input": rng.choice(pool), "frac": rng.uniform()}
    elif r < 62:
        fault = {"kind": "input", "input": rng.choice(sorted(BAD_INPUTS))}
    elif r < 70:
        pool = pieces_for(dbnow) if segs else pieces_for("phreeqc")
        fault = {"kind": "eio", "input": rng.choice(pool), "frac": rng.uniform(), "eof": rng.chance(50)}
    elif r < 85:
        fault = {"kind": "load", "variant": rng.choice(["missing", "truncated", "additions", "truncated_string", "garbage"]), "frac": rng.uniform(),
                 "db": rng.choice(["phreeqc", "wateq4f", "pitzer"])}
    if fault and fault["kind"] in ("abort", "alloc", "eio", "input") and not segs:
        segs.append({"db": "phreeqc", "dbstring": False, "setters": [], "inputs": [], "entries": []})
    db2 = rng.choice(["phreeqc", "phreeqc", "phreeqc", "wateq4f", "pitzer", "iso"])
    probes = []
    pk = PROBE_KEYS if db2 in ("phreeqc", "wateq4f", "iso") else PROBES_ANYDB
    for _ in range(rng.range(1, 3)):
        probes.append(rng.choice(pk))
    # a probe that ends in an error is the last call of the plan: what follows a failed call without a reload is outside the contract
    probes = [p for p in probes if p not in ERR_PROBES] + [p for p in probes if p in ERR_PROBES][:1]
    post = gen_setters(rng, rng.range(0, 3))
    return {"prop": PROP, "segments": segs, "fault": fault, "db2": db2, "db2string": rng.chance(20), "post_setters": post, "probes": probes,
            "probe_entry": rng.choice(["string", "string", "file", "acc"]), "probe_files": rng.chance(50)}


# ---------------------------------------------------------------------------------------------------
def run_ops(entry, text, tag):
    if entry == "file":
        fn = "c07_%s.pqi" % tag
        return [["mkfile", fn, text], call("cpp", "s1", "RunFile", fn)]
    if entry == "acc":
        return [call("cpp", "s1", "AccumulateLine", l) for l in text.split("\n")] + [call("cpp", "s1", "RunAccumulated")]
    return [call("cpp", "s1", "RunString", text)]


def setter_ops(setters):
    return [call("cpp", "s1", fn, v) for fn, v in setters]


def load_ops(dbk, as_string):
    if as_string:
        return [call("cpp", "s1", "LoadDatabaseString", read_text(DBS[dbk]))]
    return [call("cpp", "s1", "LoadDatabase", DBS[dbk])]


def history_ops(plan, upto_fault=True):
    ops = [["create", "1", "sim"]]
    for si, sg in enumerate(plan["segments"]):
        ops += setter_ops(sg["setters"])
        if sg["db"]:
            ops += load_ops(sg["db"], sg["dbstring"])
        for k, name in enumerate(sg["inputs"]):
            ops += hist_inc(name)
            ops += run_ops(sg["entries"][k], hist_text(name), "h%d_%d" % (si, k))
    return ops


def fault_ops(plan, k=None):
    """ops of the failing call; k = absolute index for abort/alloc/eio (None: measuring pass, no fault armed)"""
    f = plan["fault"]
    if not f:
        return []
    kind = f["kind"]
    if kind in ("abort", "alloc"):
        ops = hist_inc(f["input"])
        if k is not None:
            ops.append(["fault_abort", "s1", f["cls"], str(k), "2000000"] if kind == "abort" else ["fault_alloc", str(k)])
        return ops + [call("cpp", "s1", "RunString", hist_text(f["input"]))]
    if kind == "input" and f["input"] in ("include_fail_mid", "include_nested_missing"):
        # the failure happens in the middle of an include file whose later lines stay unread
        bad = "USE solution 99\nREACTION 1\n NaCl 1\n 1 mmol\nEND\n" if f["input"] == "include_fail_mid" else "INCLUDE$ c07_nested_missing.pqi\nEND\n"
        return [["mkfile", "c07_inc_outer.pqi", S1 + "END\n" + bad + INCLUDE_TRAILER], call("cpp", "s1", "RunString", "INCLUDE$ c07_inc_outer.pqi\nSOLUTION 50\n K 1\nEND\n")]
    if kind == "input":
        return [call("cpp", "s1", "RunString", bad_text(f["input"]))]
    if kind == "eio":
        txt = hist_text(f["input"])
        ops = hist_inc(f["input"]) + [["mkfile", "c07_eio.pqi", txt]]
        n = int(f["frac"] * len(txt))
        ops.append(["fs_fault", "c07_eio.pqi", str(FF["read_eof" if f["eof"] else "read_eio"]), str(n), "0"])
        return ops + [call("cpp", "s1", "RunFile", "c07_eio.pqi"), ["fs_clear"]]
    if kind == "load":
        v = f["variant"]
        dbt = read_text(DBS[f["db"]])
        if v == "missing":
            return [call("cpp", "s1", "LoadDatabase", "c07_no_such.dat")]
        if v == "truncated":
            cut = dbt[:int(len(dbt) * f["frac"])] + "\nSOLUTION_SPECIES\n Na+ + = broken\n log_k x\n"
            return [["mkfile", "c07_trunc.dat", cut], call("cpp", "s1", "LoadDatabase", "c07_trunc.dat")]
        if v == "truncated_string":
            return [call("cpp", "s1", "LoadDatabaseString", dbt[:int(len(dbt) * f["frac"])] + "\nPHASES\n Brokenite\n Xx = Yy\n")]
        if v == "additions":
            return [call("cpp", "s1", "LoadDatabaseString", dbt + "\n" + DB_ADDITIONS)]
        return [call("cpp", "s1", "LoadDatabaseString", "SOLUTION_MASTER_SPECIES\n H H+ -1 1 1.008\n garbage line here\nSOLUTION_SPECIES\n H+ = H+\n log_k o.0\n")]
    return []


def after_ops(plan):
    ops = load_ops(plan["db2"], plan["db2string"])
    ops.append(["transcript", "cpp", "s1", "GSLTCA"])
    ops += setter_ops(plan["post_setters"])
    for n in (1, 2, 3, 7):
        ops.append(call("cpp", "s1", "SetCurrentSelectedOutputUserNumber", n))
        ops.append(call("cpp", "s1", "SetSelectedOutputStringOn", 1))
        # a name given by SELECTED_OUTPUT -file in the history is a user-set file name and may survive the load
        # (the statement lets user-set names survive): the probes therefore name the per-user files explicitly
        ops.append(call("cpp", "s1", "SetSelectedOutputFileName", "c07_probe_so_%d.txt" % n))
        if plan.get("probe_files"):
            ops.append(call("cpp", "s1", "SetSelectedOutputFileOn", 1))
    ops.append(call("cpp", "s1", "SetCurrentSelectedOutputUserNumber", 1))
    ops.append(call("cpp", "s1", "SetDumpFileName", "c07_probe_dump.txt"))
    for sw in ("OutputStringOn", "ErrorStringOn", "LogStringOn", "DumpStringOn", "ErrorOn"):
        ops.append(call("cpp", "s1", "Set" + sw, 1))
    if plan.get("probe_files"):
        for sw in ("OutputFileOn", "DumpFileOn", "LogFileOn"):
            ops.append(call("cpp", "s1", "Set" + sw, 1))
    for i, p in enumerate(plan["probes"]):
        ops.append(["fs_log_clear"])
        ops += run_ops(plan["probe_entry"], PROBES[p], "p%d" % i)
        ops.append(["transcript", "cpp", "s1", "GSLTC"])
        ops.append(["fs_log", "nodata"])
    return ops


def all_setters(plan):
    out = []
    for sg in plan["segments"]:
        out += sg["setters"]
    return out


def reference_ops(plan):
    return [["create", "1", "sim"]] + setter_ops(all_setters(plan)) + after_ops(plan)


def mask_id(s, i):
    return re.sub(r"\.%s\.(out|log|err)" % i, r".ID.\1", s)


def observed(results, start, idtxt):
    """list of comparable records from op index `start` on"""
    out = []
    for o in results:
        if o.idx < start:
            continue
        out.append((o.idx - start, [mask_id(x, idtxt) for x in o.f]))
    return out


def fs_summary(fields, idtxt):
    return sorted("%s|%s|%s|%d" % (mask_id(e["path"], idtxt), e["mode"], e["ok"], e["wbytes"]) for e in parse_fslog(fields) if "r" not in e["mode"])


def check_plan(ctx, plan):
    rep = Report()
    f = plan["fault"]
    hops = history_ops(plan)
    k = None
    fired = False
    if f and f["kind"] in ("abort", "alloc"):
        # measuring pass: how many messages of the class / allocations does the call perform after this history?
        m = ctx.execute("asan", [hops + fault_ops(plan, None)], timeout=60)
        if crash_violation(rep, m, "C07 measuring pass"):
            return rep
        ctr = m.client(0)[-1].ctr() if m.client(0) else {}
        if f["kind"] == "abort":
            total = {"log": "log", "output": "out", "punch": "punch", "screen": "screen", "warning": "warn"}.get(f["cls"])
            cnt = ctr.get(total, 0) if total else sum(ctr.get(x, 0) for x in ("out", "log", "punch", "screen", "warn"))
        else:
            cnt = ctr.get("alloc", 0)
        if cnt <= 0 or f.get("k_abs", 0) > cnt:
            rep.count("fault_impossible" if cnt <= 0 else "enumeration_past_end")
            k = None
            f = None
        elif f.get("k_abs"):
            k = f["k_abs"]
            rep.count("enumerated_crash_points")
        else:
            k = 1 + int(f["frac"] * cnt)
            if k > cnt:
                k = cnt
    fops = fault_ops(plan, k) if f else []
    aops = after_ops(plan)
    ops = hops + [["transcript", "cpp", "s1", "GSLTC"]] + fops + aops
    res = ctx.execute("asan", [ops], timeout=60)
    if crash_violation(rep, res, "C07 history (fault %s)" % json.dumps(plan["fault"])):
        return rep
    R = res.client(0)
    for o in R:
        if o.exc():
            rep.viol("exception", "exception:" + ops[o.idx][0] + ":" + (ops[o.idx][3] if ops[o.idx][0] == "call" else ""), "op %r raised %s" % ([x[:60] for x in ops[o.idx][:4]], o.exc()))
    idtxt = R[0].f[0]
    # the failing call: did the fault fire, did the call report an error?
    if f:
        fo = [o for o in R if len(hops) + 1 <= o.idx < len(hops) + 1 + len(fops) and ops[o.idx][0] == "call"][-1]
        ret = fo.f[0]
        c = fo.ctr()
        kind = f["kind"]
        fired = (kind == "abort" and c.get("abort")) or (kind == "alloc" and c.get("alloc_failed")) or (kind in ("input", "load") and ret != "0") or \
                (kind == "eio" and ("file_fault read_e" in res.events))
        if fired:
            rep.count("fault_fired:" + kind)
            if kind == "abort":
                txt = hist_text(f["input"])
                fam = W.WORK[f["input"]]["family"] if f["input"] in W.WORK else ("transport" if "TRANSPORT" in txt or "ADVECTION" in txt else "kinetics" if "KINETICS" in txt else "other")
                if f["frac"] < 0.05:
                    fam = "reading"
                rep.count("abort_inside:" + fam)
            if kind == "abort" and ret == "0":
                rep.viol("abort_not_reported", "C07:abort_returned_zero", "the injected stop fired at message %s of class %s but the call returned 0" % (k, f["cls"]))
        else:
            rep.count("fault_not_fired:" + kind)
    # ---- reference -----------------------------------------------------------------------------
    rops = reference_ops(plan)
    rkey = hashlib.sha1(json.dumps(rops).encode("latin-1", "replace")).hexdigest()
    ref = ctx.execute("asan", [rops], timeout=60)
    if crash_violation(rep, ref, "C07 reference (fresh instance)"):
        return rep
    RR = ref.client(0)
    ridtxt = RR[0].f[0]
    start = len(hops) + 1 + len(fops)
    rstart = 1 + len(all_setters(plan))
    load_ret, rload_ret = R[start].f[0], RR[rstart].f[0]
    if rload_ret != "0":
        rep.viol("harness", "C07:reference_load_failed", "the reference load returned %s" % rload_ret)
        return rep
    if load_ret != "0":
        rep.viol("load_failed", "C07:load_fails_after_history", "LoadDatabase of %s returned %s after the history (0 on a fresh instance); errors: %s" % (plan["db2"], load_ret, ""))
        return rep
    a = observed(R, start, idtxt)
    b = observed(RR, rstart, ridtxt)
    if len(a) != len(b):
        rep.viol("harness", "C07:op_count", "%d vs %d ops after the load" % (len(a), len(b)))
        return rep
    pi = -1
    for (i, fa), (j, fb) in zip(a, b):
        op = aops[i]
        if op[0] == "transcript":
            what = "getter sweep right after the load" if i == 1 else "probe %d (%s)" % (pi, plan["probes"][pi])
            ka, kb = dict(zip(fa[0::2], fa[1::2])), dict(zip(fb[0::2], fb[1::2]))
            for key in kb:
                if key == "id" or (i == 1 and key == "n.SelectedOutputFileName"):
                    continue
                if i == 1 and key == "n.DumpFileName" and dump_file_in_history(plan):
                    continue      # DUMP -file in the history: a user-set file name, allowed to survive
                if ka.get(key) != kb[key]:
                    field = re.sub(r"\d+", "N", key)
                    rep.viol("state_survives_load", "C07:differs:%s:%s" % ("sweep" if i == 1 else "probe", field),
                             "%s: %s after the history differs from the fresh instance: %s" % (what, key, first_diff(ka.get(key, "<missing>"), kb[key])))
                    break
            else:
                for key in ka:
                    if key not in kb:
                        rep.viol("state_survives_load", "C07:extra:%s" % re.sub(r"\d+", "N", key), "%s: field %s exists only after the history: %r" % (what, key, ka[key][:200]))
                        break
            if i != 1:
                rep.count("probe_compared")
        elif op[0] == "fs_log":
            sa, sb = fs_summary(fa, idtxt), fs_summary(fb, ridtxt)
            if sa != sb:
                rep.viol("state_survives_load", "C07:files:" + files_key(sa, sb), "probe %d (%s): files opened after the history %r, on the fresh instance %r" % (pi, plan["probes"][pi], sa, sb))
        elif op[0] == "call" and op[3] in ("RunString", "RunFile", "RunAccumulated"):
            pi += 1 if op[3] != "AccumulateLine" else 0
            if fa[0] != fb[0]:
                rep.viol("state_survives_load", "C07:probe_return", "probe %d (%s) returned %s after the history, %s on the fresh instance" % (pi, plan["probes"][pi], fa[0], fb[0]))
            elif norm_ctr(fa) != norm_ctr(fb):
                rep.viol("state_survives_load", "C07:probe_counters", "probe %d (%s): call counters differ: %r vs %r" % (pi, plan["probes"][pi], norm_ctr(fa), norm_ctr(fb)))
        elif op[0] == "call" and op[3].startswith("LoadDatabase"):
            if norm_ctr(fa) != norm_ctr(fb):
                rep.viol("state_survives_load", "C07:load_counters", "the load itself behaves differently: %r vs %r on the fresh instance" % (norm_ctr(fa), norm_ctr(fb)))
        elif fa != fb and op[0] == "call":
            rep.viol("state_survives_load", "C07:call_result:" + op[3], "%s returned %r after the history, %r on the fresh instance" % (op[3], fa[:2], fb[:2]))
    # ---- non-triviality: did the history leave anything behind? ------------------------------------
    pre = R[len(hops)].kv() if len(R) > len(hops) else {}
    hist_nontrivial = any(pre.get(x, "") not in ("", "0") for x in ("s.Output", "s.Log", "s.Dump", "selcount", "comps")) or bool(all_setters(plan))
    if hist_nontrivial:
        rep.count("history_nontrivial")
    if hist_nontrivial and (not plan["fault"] or fired):
        bucket = ""
        if plan["fault"]:
            bucket = plan["fault"]["kind"] + ":" + str(plan["fault"].get("input", plan["fault"].get("variant"))) + ":" + str(int(plan["fault"].get("frac", 0) * 10))
        rep.distinct.append(hashlib.sha1(json.dumps([[s["db"], s["inputs"]] for s in plan["segments"]] + [bucket, plan["db2"], plan["probes"]]).encode()).hexdigest()[:12])
    rep.sample = {"segments": [{"db": s["db"], "inputs": s["inputs"], "setters": len(s["setters"])} for s in plan["segments"]], "fault": plan["fault"], "k": k,
                  "db2": plan["db2"], "probes": plan["probes"]}
    return rep


def dump_file_in_history(plan):
    names = [n for sg in plan["segments"] for n in sg["inputs"]]
    if plan["fault"] and plan["fault"].get("input") and plan["fault"]["kind"] in ("abort", "alloc", "eio"):
        names.append(plan["fault"]["input"])
    return any(re.search(r"DUMP\s*\n(\s+-[^\n]*\n)*?\s+-file", hist_text(n)) for n in names)


def norm_ctr(f):
    # allocation counts are not observable results (capacity left in reused containers changes them)
    return [re.sub(r" (mutex|fileop|alloc)=\d+", "", x) for x in f if x.startswith("ctr ")]


def files_key(sa, sb):
    pa, pb = set(x.split("|")[0] for x in sa), set(x.split("|")[0] for x in sb)
    if pa != pb:
        return "names"
    ma, mb = set(tuple(x.split("|")[:2]) for x in sa), set(tuple(x.split("|")[:2]) for x in sb)
    if ma != mb:
        return "mode"
    return "bytes"


def shrink_candidates(plan):
    segs = plan["segments"]
    for i in range(len(segs)):
        if len(segs) > 1 or not (plan["fault"] and plan["fault"]["kind"] in ("abort", "alloc", "eio", "input")):
            c = dict(plan)
            c["segments"] = segs[:i] + segs[i + 1:]
            if c["segments"] and not c["segments"][0]["db"]:
                c["segments"] = [dict(c["segments"][0], db="phreeqc")] + c["segments"][1:]
            yield c
    for i, sg in enumerate(segs):
        for k in range(len(sg["inputs"])):
            c = dict(plan)
            c["segments"] = segs[:i] + [dict(sg, inputs=sg["inputs"][:k] + sg["inputs"][k + 1:], entries=sg["entries"][:k] + sg["entries"][k + 1:])] + segs[i + 1:]
            yield c
        if sg["setters"]:
            c = dict(plan)
            c["segments"] = segs[:i] + [dict(sg, setters=[])] + segs[i + 1:]
            yield c
            for k in range(len(sg["setters"])):
                c = dict(plan)
                c["segments"] = segs[:i] + [dict(sg, setters=sg["setters"][:k] + sg["setters"][k + 1:])] + segs[i + 1:]
                yield c
    if plan["fault"]:
        c = dict(plan)
        c["fault"] = None
        yield c
    if len(plan["probes"]) > 1:
        for k in range(len(plan["probes"]) - (1 if plan["probes"][-1] in ERR_PROBES else 0)):
            c = dict(plan)
            c["probes"] = plan["probes"][:k] + plan["probes"][k + 1:]
            yield c
    for key, val in (("post_setters", []), ("probe_files", False), ("db2string", False), ("probe_entry", "string")):
        if plan.get(key) != val:
            c = dict(plan)
            c[key] = val
            yield c
