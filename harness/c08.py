"""C08 — bad input and failing files are reported as errors; they never crash or poison the instance.

Each case: fresh instance, successful load, ONE bad call, read-out, successful reload, probe.
Bad-call families (the faults of this library's readers and writers):
  input    a corpus input delivered with stored-byte faults: flipped bytes, deleted / duplicated / swapped lines,
           a numeric token replaced by an edge value, a deleted token, truncation or inserted garbage at an arbitrary byte
  database the same faults applied to a database text, through LoadDatabaseString or LoadDatabase(file)
  file     nonexistent database / input / include file; EIO or EOF at byte N while reading the input or database file;
           open failure, ENOSPC, short writes, EINTR or failing close on an output sink or on the dump file
  alloc    the k-th C allocation inside the run or load returns NULL
  args     empty string, blanks, only ENDs, a 1 MB line, binary noise, DATABASE keyword in odd places, NULL/empty names

Oracle: the call returns to the harness (no trapped exit, no signal, no escaping exception, ASan/UBSan silent);
return value != 0  <=>  the error string is non-empty (error recording on);
the error and warning strings of the bad call contain nothing of an earlier successful run on the same instance;
after a successful reload the probe transcript equals that of a fresh instance (C07 oracle)."""
import hashlib, json, re
from common import *
from runner import Report, crash_violation
from simlib import FF
import workloads as W
import c07

PROP = "C08"
LEVEL = "fault_enumeration"
VARIANTS = ["asanlite"]
RULE = ("one bad call per case on a freshly loaded instance, drawn from the families input / database / file / alloc / args (see module text); the stored-byte "
        "faults are explicit edit lists at fractional positions of a corpus text; each case is followed by a reload and a probe compared with a fresh instance. "
        "Non-trivial = a fault fired or the bad call got past the first keyword (the call emitted > 20 messages or returned non-zero); "
        "distinct = distinct (family, base text, edit kinds and position buckets, outcome class).")
COMPONENTS = {"real": "whole IPhreeqc library from /repo's working tree (ASan+UBSan), exit() trapped",
              "stub": "libc file calls of sandbox files (injected open/read/write/close failures), C allocation family wrappers, message-count budget through the virtual sinks, clock() frozen"}
ASSUMPTIONS = ["runs exceeding the message budget are stopped by the abort injector and counted as inconclusive for the return-value oracle (still subject to no-crash and reload oracles)",
               "runs killed by the 120 s watchdog are hang suspects, not violations",
               "operator new failure is not injected (only the C allocation family, whose failure the engine promises to turn into an error)"]
REACH_PROBES = ["family:input", "family:database", "family:file", "family:alloc", "family:args", "bad_call_failed", "bad_call_succeeded", "fault_fired", "reload_probe_compared", "stale_text_checked"]
tiers = {"quick": dict(runs=2000, budget_s=150, workers=16), "thorough": dict(runs=120000, budget_s=1800, workers=16)}

BASES = sorted(set(W.FAST) | {"h_selout", "h_dbadd", "h_transport", "h_adv", "h_incr", "h_hot", "h_basic", "h_title_copy", "h_dump_append", "h_knobs", "h_print"})
EDGE_NUMS = ["0", "-1", "1e-30", "1e30", "1e308", "-1e308", "nan", "inf", "999999999", "1e-400", "0.0000000000000000000000001", "-0", "1e", "--1", "1.2.3", "2147483648", "-2147483649"]
GARBAGE = ["\x00", "\xff\xfe", "\t\t\t", ";", "#", "\\", "END", "-", "(", ")", "\"", "'", "10 PRINT", "\r", "\r\n", "SOLUTION", "-file /nonexistent_dir/x", "INCLUDE$ nofile", "DATABASE x.dat\n", "  \n" * 3,
           "USER_PUNCH\n10 PUNCH 1/0\n", "RATES\n x\n -start\n10 GOTO 10\n -end\n", "KNOBS\n -iterations 0\n", "\x1a", "-" * 300]
INCLUDE_TRAILER = ("PHASES\n Calcite\n CaCO3 = CO3-2 + Ca+2\n log_k -7.0\nSOLUTION_SPECIES\n Ca+2 + Cl- = CaCl+\n log_k 2.5\n Na+ + Cl- = NaCl\n log_k 1.0\nKNOBS\n -step_size 3\n"
                   "SELECTED_OUTPUT 4\n -reset false\n -pH\nSOLUTION 60\n Ca 5\n Cl 10\n")
PRIOR = "SOLUTION 900 prior water\n Na 1\n Cl 1\nEQUILIBRIUM_PHASES 900\n Halite 0 0\n Sylvite 0 0\nSAVE solution 901\nEND\n"
PRIOR_MARKS = ["Halite", "Sylvite", "prior water"]


def base_text(name):
    return c07.hist_text(name) if name in c07.STICKY else W.text(name)


def base_db(name):
    if name in c07.HIST_DB:
        return c07.DBS[c07.HIST_DB[name]]
    return W.db(name)


def gen_edits(rng, n):
    out = []
    for _ in range(n):
        k = rng.choice(["flip", "flip", "delline", "dupline", "swap", "num", "num", "deltok", "trunc", "insert", "insert"])
        e = {"op": k, "at": rng.uniform()}
        if k == "flip":
            e["val"] = rng.below(256)
        elif k == "swap":
            e["to"] = rng.uniform()
        elif k == "num":
            e["val"] = rng.choice(EDGE_NUMS)
        elif k == "insert":
            e["text"] = rng.choice(GARBAGE)
        out.append(e)
    return out


NUMTOK = re.compile(r"(?<![A-Za-z_(])[-+]?(\d+\.?\d*|\.\d+)([eE][-+]?\d+)?(?![A-Za-z_)])")


def apply_edits(text, edits):
    for e in edits:
        k = e["op"]
        if not text:
            break
        if k == "flip":
            p = min(len(text) - 1, int(e["at"] * len(text)))
            text = text[:p] + chr(e["val"]) + text[p + 1:]
        elif k in ("delline", "dupline", "swap"):
            lines = text.split("\n")
            i = min(len(lines) - 1, int(e["at"] * len(lines)))
            if k == "delline":
                del lines[i]
            elif k == "dupline":
                lines.insert(i, lines[i])
            else:
                j = min(len(lines) - 1, int(e["to"] * len(lines)))
                lines[i], lines[j] = lines[j], lines[i]
            text = "\n".join(lines)
        elif k in ("num", "deltok"):
            toks = list(NUMTOK.finditer(text)) if k == "num" else list(re.finditer(r"\S+", text))
            if toks:
                m = toks[min(len(toks) - 1, int(e["at"] * len(toks)))]
                text = text[:m.start()] + (e["val"] if k == "num" else "") + text[m.end():]
        elif k == "trunc":
            text = text[:int(e["at"] * len(text))]
        elif k == "insert":
            p = int(e["at"] * len(text))
            text = text[:p] + e["text"] + text[p:]
    return text


ARGS = {
    "empty": "", "blanks": "   \n\t\n  ", "ends": "END\nEND\nEND\n", "longline": "SOLUTION 1 " + "x" * 1000000 + "\nEND\n",
    "noise": "".join(chr((i * 7919 + 13) % 255 + 1) for i in range(3000)), "db_mid": "SOLUTION 1\nDATABASE foo.dat\n Na 1\nEND\n",
    "db_first_missing": "DATABASE /nonexistent_dir/none.dat\nSOLUTION 1\nEND\n", "title_only": "TITLE x", "nul_free_ctl": "\x01\x02\x03\x04SOLUTION 1\n\x7f\nEND",
    "deep_include": "INCLUDE$ c08_self.pqi\n", "long_token": "SOLUTION_SPECIES\n " + "Na" * 5000 + "+ = Na+\n log_k 0\nEND\n",
    "many_ends": "END\n" * 3000, "unterminated_basic": "USER_PRINT\n10 PRINT \"abc\n20 x = (((((\nEND\n", "only_option": " -pH 7\n -units mmol\n",
}


ENUM_BASES = ["w_spec", "w_calcval", "w_react", "h_basic"]
ENUM_SPAN = 900


def generate(rng, tier, index):
    plan = generate_random(rng, tier, index)
    if tier == "thorough" and index < 2 * len(ENUM_BASES) * ENUM_SPAN:
        # exhaustive part: the input file ends (EOF) or fails (EIO) at every byte offset of four short inputs
        j = index // ENUM_SPAN
        base = ENUM_BASES[j % len(ENUM_BASES)]
        n = len(base_text(base))
        pos = index % ENUM_SPAN
        plan.update({"family": "file", "base": base, "entry": "file", "edits": [], "fault": {"kind": "read_eof_input" if j < len(ENUM_BASES) else "read_eio_input", "at": min(pos, n) / float(max(n, 1)), "sink": "Output", "param": 1}, "enumerated": pos < n})
        plan.pop("arg", None)
    return plan


def generate_random(rng, tier, index):
    fam = rng.choice(["input", "input", "input", "input", "database", "file", "file", "alloc", "args"])
    base = rng.choice(BASES)
    plan = {"prop": PROP, "family": fam, "base": base, "entry": rng.choice(["string", "string", "file", "acc"]), "edits": [], "fault": None,
            "probe": rng.choice(["p_full", "p_transport", "p_basic", "p_kin", "p_dump", "p_nosel", "p_surface", "p_advection"]), "prior_variant": rng.chance(50),
            "setters": c07.gen_setters(rng, rng.range(0, 3)) if rng.chance(60) else [], "db2": rng.choice(["phreeqc", "phreeqc", "iso", "wateq4f"])}
    if fam == "input":
        plan["edits"] = gen_edits(rng, rng.range(1, 3))
    elif fam == "database":
        plan["db"] = rng.choice(["phreeqc", "phreeqc", "wateq4f", "pitzer", "iso"])
        plan["edits"] = gen_edits(rng, rng.range(1, 3))
        plan["entry"] = rng.choice(["string", "file"])
    elif fam == "file":
        k = rng.choice(["missing_db", "missing_input", "missing_include", "read_eio_input", "read_eof_input", "read_eio_db", "read_short_input", "sink_open_fail", "sink_enospc", "sink_close_fail", "sink_short", "dump_open_fail", "sel_open_fail", "eintr_input", "include_fail_mid", "include_fail_mid"])
        plan["fault"] = {"kind": k, "at": rng.uniform(), "sink": rng.choice(["Output", "Log", "Error", "Dump"]), "param": rng.choice([0, 1, 17, 300, 4096])}
        if k.endswith("input") or k == "read_short_input":
            plan["entry"] = "file"
    elif fam == "alloc":
        plan["fault"] = {"kind": "alloc", "at": rng.uniform(), "in_load": rng.chance(25)}
        plan["entry"] = "string"
    else:
        plan["arg"] = rng.choice(sorted(ARGS))
        plan["entry"] = rng.choice(["string", "file", "acc"])
    return plan


BUDGET = "400000"


def sink_setters(plan):
    """setter calls that the 'file' family issues before the bad call (they survive the reload, so the reference issues them too)"""
    f = plan.get("fault") or {}
    kind = f.get("kind", "")
    if plan["family"] != "file" or not (kind.startswith("sink_") or kind in ("dump_open_fail", "sel_open_fail")):
        return []
    if kind == "sel_open_fail":
        return [["SetSelectedOutputFileOn", 1], ["SetSelectedOutputFileName", "c08_sel_sink.txt"]]
    sink = "Dump" if kind == "dump_open_fail" else f["sink"]
    return [["Set%sFileOn" % sink, 1], ["Set%sFileName" % sink, "c08_sink_%s.txt" % sink]]


def bad_call_ops(plan, k=None, tgt="s1"):
    """ops of the bad call on target tgt.  Returns (ops, index of the call whose return value counts, is_load)"""
    fam = plan["family"]
    ops = []
    is_load = False

    def run(text, entry, tag):
        o = []
        if entry == "file":
            o.append(["mkfile", "c08_%s.pqi" % tag, text])
            o.append(call("cpp", tgt, "RunFile", "c08_%s.pqi" % tag))
        elif entry == "acc":
            for l in text.split("\n"):
                o.append(call("cpp", tgt, "AccumulateLine", l))
            o.append(call("cpp", tgt, "RunAccumulated"))
        else:
            o.append(call("cpp", tgt, "RunString", text))
        return o

    ops.append(["fault_abort", tgt, "any", "0", BUDGET])
    if fam == "input":
        ops += W.inc_ops(plan["base"]) if plan["base"] in W.WORK else []
        ops += run(apply_edits(base_text(plan["base"]), plan["edits"]), plan["entry"], "in")
    elif fam == "database":
        is_load = True
        txt = apply_edits(read_text(c07.DBS[plan["db"]]), plan["edits"])
        if plan["entry"] == "file":
            ops += [["mkfile", "c08_bad.dat", txt], call("cpp", tgt, "LoadDatabase", "c08_bad.dat")]
        else:
            ops.append(call("cpp", tgt, "LoadDatabaseString", txt))
    elif fam == "args":
        txt = ARGS[plan["arg"]]
        if plan["arg"] == "deep_include":
            ops.append(["mkfile", "c08_self.pqi", "SOLUTION 1\nINCLUDE$ c08_self2.pqi\nEND\n"])
            ops.append(["mkfile", "c08_self2.pqi", " Na 1\nINCLUDE$ c08_none.pqi\n"])
        ops += run(txt, plan["entry"], "arg")
    elif fam == "alloc":
        f = plan["fault"]
        if k is not None:
            ops.append(["fault_alloc", str(k)])
        if f["in_load"]:
            is_load = True
            ops.append(call("cpp", tgt, "LoadDatabase", base_db(plan["base"])))
        else:
            ops += W.inc_ops(plan["base"]) if plan["base"] in W.WORK else []
            ops += run(base_text(plan["base"]), "string", "al")
    else:
        f = plan["fault"]
        kind = f["kind"]
        txt = base_text(plan["base"])
        inc = W.inc_ops(plan["base"]) if plan["base"] in W.WORK else []
        if kind == "missing_db":
            is_load = True
            ops.append(call("cpp", tgt, "LoadDatabase", "c08_missing_%d.dat" % f["param"]))
        elif kind == "missing_input":
            ops.append(call("cpp", tgt, "RunFile", "c08_missing_input.pqi"))
        elif kind == "missing_include":
            lines = txt.split("\n")
            i = int(f["at"] * len(lines))
            ops += inc + run("\n".join(lines[:i] + ["INCLUDE$ c08_not_there.inc"] + lines[i:]), plan["entry"], "mi")
        elif kind == "include_fail_mid":
            # the input is split over include files; a simulation in the middle of an include file fails (or names a missing nested include)
            # while later lines of that file are still unread
            bad = ["USE solution 99\nREACTION 1\n NaCl 1\n 1 mmol\nEND\n", "EQUILIBRIUM_PHASES 1\n Nonexistentite 0 1\nEND\n", "INCLUDE$ c08_nested_missing.pqi\nEND\n", "SOLUTION 2\n Na 1 bogus_units\nEND\n"][f["param"] % 4]
            inc_text = txt + ("" if txt.endswith("\n") else "\n") + bad + INCLUDE_TRAILER
            ops += inc + [["mkfile", "c08_inc_outer.pqi", inc_text]]
            ops += run("TITLE split input\nINCLUDE$ c08_inc_outer.pqi\nSOLUTION 50\n K 1\n Cl 1\nEND\n", plan["entry"], "im")
        elif kind in ("read_eio_input", "read_eof_input", "read_short_input", "eintr_input"):
            ops += inc + [["mkfile", "c08_rf.pqi", txt]]
            fk = {"read_eio_input": "read_eio", "read_eof_input": "read_eof", "read_short_input": "read_short", "eintr_input": "eintr"}[kind]
            par = int(f["at"] * len(txt)) if fk in ("read_eio", "read_eof") else max(1, f["param"])
            ops.append(["fs_fault", "c08_rf.pqi", str(FF[fk]), str(par), "0"])
            ops.append(call("cpp", tgt, "RunFile", "c08_rf.pqi"))
        elif kind == "read_eio_db":
            is_load = True
            dbt = read_text(base_db(plan["base"]))
            ops.append(["mkfile", "c08_eio.dat", dbt])
            ops.append(["fs_fault", "c08_eio.dat", str(FF["read_eio"]), str(int(f["at"] * len(dbt))), "0"])
            ops.append(call("cpp", tgt, "LoadDatabase", "c08_eio.dat"))
        else:
            sink = f["sink"]
            if kind == "dump_open_fail":
                sink = "Dump"
            if kind == "sel_open_fail":
                target = "c08_sel_sink.txt"
                txt = "SELECTED_OUTPUT 1\n -reset false\n -pH\n" + txt
            else:
                target = "c08_sink_%s.txt" % sink
                if sink == "Dump":
                    txt = txt + "\nDUMP\n -all\nEND\n"
                if sink == "Log":
                    txt = "KNOBS\n -logfile true\n" + txt
            fk = {"sink_open_fail": "open_fail", "dump_open_fail": "open_fail", "sel_open_fail": "open_fail", "sink_enospc": "write_enospc", "sink_close_fail": "close_fail", "sink_short": "write_short"}[kind]
            ops.append(["fs_fault", target, str(FF[fk]), str(f["param"]), "0"])
            ops += inc + run(txt, plan["entry"], "sk")
    idx = max(i for i, o in enumerate(ops) if o[0] == "call" and o[3] in ("RunString", "RunFile", "RunAccumulated", "LoadDatabase", "LoadDatabaseString"))
    ops.append(["fs_clear"])
    return ops, idx, is_load


def probe_plan(plan):
    return {"segments": [{"setters": plan.get("setters", []) + sink_setters(plan)}], "db2": plan.get("db2", "phreeqc"), "db2string": False, "post_setters": [], "probes": [plan["probe"]], "probe_entry": "string", "probe_files": False, "fault": None}


def check_plan(ctx, plan):
    rep = Report()
    fam = plan["family"]
    rep.count("family:" + fam)
    if plan.get("enumerated"):
        rep.count("enumerated_eof_offsets")
    db1 = base_db(plan["base"]) if fam != "database" else PHREEQC_DAT
    k = None
    if fam == "alloc":
        mops, midx, _ = bad_call_ops(plan, None)
        mhead = [["create", "1", "sim"], call("cpp", "s1", "LoadDatabase", db1)] + c07.setter_ops(plan.get("setters", []))
        m = ctx.execute("asanlite", [mhead + mops], timeout=120)
        if crash_violation(rep, m, "C08 measuring pass"):
            return rep
        cnt = m.client(0)[len(mhead) + midx].ctr().get("alloc", 0) if len(m.client(0)) > len(mhead) + midx else 0
        if cnt <= 0:
            rep.count("fault_impossible")
        else:
            k = min(cnt, 1 + int(plan["fault"]["at"] * cnt))
    bops, bidx, is_load = bad_call_ops(plan, k)
    pp = probe_plan(plan)
    setters = plan.get("setters", []) + sink_setters(plan)
    head = [["create", "1", "sim"], call("cpp", "s1", "LoadDatabase", db1)] + c07.setter_ops(setters)
    readout = [["transcript", "cpp", "s1", "GSL"]]
    after_fail = []       # nothing is called between the bad call and the reload: a call after a failed call is outside the contract
    aops = c07.after_ops(pp)
    ops = head + bops + readout + after_fail + aops
    res = ctx.execute("asanlite", [ops], timeout=120)
    what = "C08 %s case (base %s, %s)" % (fam, plan["base"], json.dumps(plan.get("fault") or plan.get("arg") or plan["edits"])[:300])
    if crash_violation(rep, res, what):
        # the key of a crash names the call site and the fault family that reached it (a listed site reached by another
        # family of faults can be told apart where that matters)
        for v in rep.violations:
            v["key"] += "|" + fam + (":" + plan["fault"]["kind"] if fam == "file" else "")
        return rep
    R = res.client(0)
    for o in R:
        if o.exc():
            rep.viol("exception", "C08:exception:" + (ops[o.idx][3] if ops[o.idx][0] == "call" else ops[o.idx][0]) + ":" + re.sub(r"[^A-Za-z_: ]+", "", o.exc()[4:])[:48].strip(), "%s: %r raised %s" % (what, [x[:60] for x in ops[o.idx][:4]], o.exc()))
    if R[1].f[0] != "0":
        rep.viol("harness", "C08:first_load_failed", "initial load returned %s" % R[1].f[0])
        return rep
    bo = R[len(head) + bidx]
    ret = bo.f[0]
    ctr = bo.ctr()
    ro = R[len(head) + len(bops)].kv()
    serr, swarn = ro.get("s.Error", ""), ro.get("s.Warning", "")
    budget_hit = ctr.get("budget", 0) == 1
    fired = ("file_fault" in res.events) or ctr.get("alloc_failed", 0) > 0
    if fired:
        rep.count("fault_fired")
        for kind in set(re.findall(r"file_fault (\w+)", res.events)):
            rep.count("fault_fired:" + kind)
        if ctr.get("alloc_failed", 0):
            rep.count("fault_fired:alloc_null")
    if budget_hit:
        rep.inconclusive += 1
        rep.count("budget_stop")
    rep.count("bad_call_failed" if ret != "0" else "bad_call_succeeded")
    # ---- return value <=> error text -----------------------------------------------------------------
    recording = ro.get("b.ErrorOn") == "1" and ro.get("b.ErrorStringOn") == "1"
    if not budget_hit and recording:
        if ret != "0" and serr == "":
            rep.viol("ret_vs_errors", "C08:nonzero_return_without_error_text", "%s: the call returned %s but the error string is empty; warnings: %r" % (what, ret, swarn[:300]))
        if ret == "0" and serr != "":
            rep.viol("ret_vs_errors", "C08:error_text_with_zero_return", "%s: the call returned 0 but the error string holds %r" % (what, serr[:400]))
    # ---- reload + probe vs fresh instance (C07 oracle) ---------------------------------------------------------
    rops = c07.reference_ops(pp)
    ref = ctx.execute("asanlite", [rops], timeout=120)
    if crash_violation(rep, ref, "C08 reference"):
        return rep
    RR = ref.client(0)
    start = len(ops) - len(aops)
    a = c07.observed(R, start, R[0].f[0])
    b = c07.observed(RR, 1 + len(setters), RR[0].f[0])
    if a and a[0][1][0] != "0":
        rep.viol("reload", "C08:reload_failed", "%s: LoadDatabase after the bad call returned %s" % (what, a[0][1][0]))
    else:
        for (i, fa), (j, fb) in zip(a, b):
            op = aops[i]
            if op[0] == "transcript":
                ka, kb = dict(zip(fa[0::2], fa[1::2])), dict(zip(fb[0::2], fb[1::2]))
                for key in kb:
                    if key == "id" or (i == 1 and key in ("n.SelectedOutputFileName", "n.DumpFileName") and ("-file" in base_text(plan["base"]) or any("-file" in str(e.get("text", "")) for e in plan["edits"]))):
                        continue      # names given by -file in the input are user-set names (see C07)
                    if key == "id":
                        continue
                    if ka.get(key) != kb[key]:
                        rep.viol("poisoned", "C08:after_reload:%s" % re.sub(r"\d+", "N", key), "%s: after the reload %s differs from a fresh instance: %s" % (what, key, first_diff(ka.get(key, "<missing>"), kb[key])))
                        break
                rep.count("reload_probe_compared")
            elif op[0] == "call" and op[3] == "RunString" and fa[0] != fb[0]:
                rep.viol("poisoned", "C08:after_reload:probe_return", "%s: probe returned %s after the reload, %s on a fresh instance" % (what, fa[0], fb[0]))
    # ---- strings describe this call only ---------------------------------------------------------------------
    if plan.get("prior_variant") and not is_load:
        bops2, bidx2, _ = bad_call_ops(plan, k, "s2")
        ops2 = [["create", "2", "sim"], call("cpp", "s2", "LoadDatabase", db1), call("cpp", "s2", "RunString", PRIOR), ["transcript", "cpp", "s2", "S"]] + \
               [[x if x != "s1" else "s2" for x in o] for o in c07.setter_ops(setters)] + bops2 + [["transcript", "cpp", "s2", "S"]]
        r2 = ctx.execute("asanlite", [ops2], timeout=120)
        if crash_violation(rep, r2, what + " after a prior successful run"):
            return rep
        Q = r2.client(0)
        prior_kv, post_kv = Q[3].kv(), Q[-1].kv()
        if Q[2].f[0] == "0" and any(mk in prior_kv.get("s.Warning", "") for mk in PRIOR_MARKS):
            rep.count("stale_text_checked")
            for stream in ("s.Error", "s.Warning"):
                for mk in PRIOR_MARKS:
                    if mk in post_kv.get(stream, "") and mk not in (serr + swarn):
                        rep.viol("stale_text", "C08:stale:%s" % stream, "%s: after the bad call %s still mentions %r, which only the earlier successful run produced: %r" % (what, stream, mk, post_kv[stream][:300]))
                        break
    nontrivial = fired or ret != "0" or sum(ctr.get(x, 0) for x in ("out", "log", "punch", "warn")) > 20
    if nontrivial:
        kinds = ",".join(sorted(set(e["op"] + ":" + str(int(e["at"] * 8)) for e in plan["edits"])))
        fk = (plan["fault"] or {}).get("kind", plan.get("arg", ""))
        rep.distinct.append(hashlib.sha1(("%s|%s|%s|%s|%s" % (fam, plan["base"], kinds, fk, ret != "0")).encode()).hexdigest()[:12])
    rep.sample = {"family": fam, "base": plan["base"], "entry": plan["entry"], "edits": plan["edits"][:3], "fault": plan.get("fault"), "arg": plan.get("arg"), "returned": ret, "k": k}
    return rep


def shrink_candidates(plan):
    e = plan["edits"]
    if len(e) > 1:
        for i in range(len(e)):
            c = dict(plan)
            c["edits"] = e[:i] + e[i + 1:]
            yield c
    if plan["entry"] != "string" and plan["family"] in ("input", "args"):
        c = dict(plan)
        c["entry"] = "string"
        yield c
    if plan.get("prior_variant"):
        c = dict(plan)
        c["prior_variant"] = False
        yield c
    if plan.get("setters"):
        c = dict(plan)
        c["setters"] = []
        yield c
    if plan["probe"] != "p_nosel":
        c = dict(plan)
        c["probe"] = "p_nosel"
        yield c
