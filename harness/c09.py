"""C09 — file, string and line views of every output stream are identical.

A plan is a history of 1-4 runs on one instance; before each run a subset of the switches (8 global
file/string switches, ErrorOn, file and string switch per selected-output user number) is changed and
file names are set.  The simulated file layer captures every byte each descriptor receives, so the
file twin of each stream is compared with the string twin without trusting file names on disk.
A second execution of the same history with all strings on and all files off is the reference for
'switching sinks never changes results'.  A separate configuration injects sink faults (open failure,
ENOSPC, short writes, EINTR, failing close) on one file sink."""
import hashlib, json
from common import *
from runner import Report, crash_violation
import streams
from streams import NOTSET, getline_split, parse_fslog, parse_table

PROP = "C09"
LEVEL = "exploration"
VARIANTS = ["asan"]
RULE = ("histories of 1-4 runs on one instance; per run a seeded assignment of the 9 global switches, per-user-number selected-output "
        "file/string switches, current user number, custom/default file names, entry point and one of the workload inputs (output, "
        "log, warnings, errors, DUMP with/without -append/-file, several SELECTED_OUTPUT blocks); every 8th plan carries one sink fault. "
        "Non-trivial = at least one stream had both sinks on and received >= 1 kB; distinct = distinct (switch vectors, inputs, name kinds). "
        "The thorough tier starts with an exhaustive part: all 2^9 global switch vectors for each of eight inputs.")
COMPONENTS = {"real": "whole IPhreeqc library from /repo's working tree (ASan+UBSan)",
              "stub": "libc file calls of sandbox files (fopen64/read/write/writev/fclose interposed: capture + injected failures), clock() frozen"}
ASSUMPTIONS = ["descriptor-level capture equals file content (regular files in a private sandbox directory)",
               "for the dump stream the comparison is between what each sink received during the run (string delta vs bytes written)"]
REACH_PROBES = ["runs_after_failed_load", "both_sinks_compared", "dump_compared", "sel_compared", "error_subsequence_checked", "fault_fired", "runs_with_errors"]
tiers = {"quick": dict(runs=6000, budget_s=150, workers=16), "thorough": dict(runs=60000, budget_s=1500, workers=16)}

GLOBAL_SW = ["OutputFileOn", "OutputStringOn", "LogFileOn", "LogStringOn", "ErrorFileOn", "ErrorStringOn", "DumpFileOn", "DumpStringOn", "ErrorOn"]

SOL = "SOLUTION 1\n temp 25\n pH 7\n Na 1\n Cl 1\n Ca 0.5\n C 1\n"
INPUTS = {
    # key: (text, has_dump, append (None = not mentioned), expects_error)
    "spec": ("TITLE c09 speciation\n" + SOL + "SOLUTION 2\n K 2\n S(6) 1\nEND\n", False, None, False),
    "log": ("KNOBS\n -logfile true\n" + SOL + "EQUILIBRIUM_PHASES 1\n Calcite 0 1\n CO2(g) -2 1\nREACTION 1\n NaCl 1\n 1 2 3 mmol\nEND\n", False, None, False),
    "warn": (SOL + "EQUILIBRIUM_PHASES 1\n Halite 0 0\n Sylvite 0 0\nEND\n", False, None, False),
    "err": (SOL + "END\nUSE solution 1\nREACTION 1\n NaCl 1\n 1 mmol\nEND\nPRINT\n -bogus true\nEND\n", False, None, True),
    "err2": ("SOLUTION 1\n Na 1\n Foo 3\nEND\n", False, None, True),
    "sel1": ("SELECTED_OUTPUT 1\n -reset true\n -totals Na Ca\n -molalities CaCO3\n -si Calcite\n" + SOL +
             "REACTION 1\n HCl 1\n 1 2 3 4 mmol\nEND\n", False, None, False),
    "sel12": ("SELECTED_OUTPUT 1\n -reset false\n -pH true\n -pe true\nUSER_PUNCH 1\n -headings a b c\n10 PUNCH 1.5, \"txt\", STEP_NO\n"
              "SELECTED_OUTPUT 2\n -high_precision true\n -totals Cl\n -temperature true\nUSER_PUNCH 2\n -headings only_one\n10 PUNCH TOT(\"Na\"), 2, 3\n" + SOL +
              "REACTION 1\n NaCl 1\n 1 2 mmol\nEND\n", False, None, False),
    "selfile": ("SELECTED_OUTPUT 3\n -file c09_sel3.txt\n -reset false\n -ionic_strength true\n -alkalinity true\n" + SOL + "END\nUSE solution 1\nEQUILIBRIUM_PHASES 1\n Gypsum 0 1\nEND\n", False, None, False),
    "sel5": ("SELECTED_OUTPUT 5\n -reset false\n -step\n -time\nUSER_PUNCH 5\n -headings h1\n10 PUNCH SIM_NO\n" + SOL + "END\n", False, None, False),
    "nosel": ("PRINT\n -selected_output false\n" + SOL + "END\nPRINT\n -selected_output true\nEND\n", False, None, False),
    "dump": (SOL + "EQUILIBRIUM_PHASES 1\n Calcite 0 1\nSAVE solution 2\nSAVE equilibrium_phases 2\nDUMP\n -all\nEND\n", True, None, False),
    "dumpapp": (SOL + "EXCHANGE 1\n X 0.1\n -equilibrate 1\nDUMP\n -append true\n -solution 1\n -exchange 1\nEND\n", True, True, False),
    "dumpnoapp": (SOL + "DUMP\n -append false\n -solution 1\nEND\n", True, False, False),
    "dumpfile": (SOL + "DUMP\n -file c09_dump_custom.txt\n -all\nEND\n", True, None, False),
    "multi": ("SELECTED_OUTPUT 1\n -reset false\n -pH\n -totals Ca\n" + SOL + "END\nUSE solution 1\nEQUILIBRIUM_PHASES 1\n Calcite 0 1\nSAVE solution 3\nEND\nUSE solution 3\nREACTION_TEMPERATURE 1\n 30 40\nEND\n", False, None, False),
    "ex2": (None, False, None, False),
    "ex3": (None, False, None, False),
    "ex5": (None, False, None, False),
    "ex7": (None, False, None, False),
}
INPUT_KEYS = sorted(INPUTS)


def input_text(key):
    t = INPUTS[key][0]
    return t if t is not None else example_text(key)


ENUM_IN = ["log", "sel12", "dump", "dumpapp", "warn", "err", "multi", "ex2"]


def generate(rng, tier, index):
    if tier == "thorough" and index < 512 * len(ENUM_IN):
        # exhaustive part: every one of the 2^9 global switch vectors, for eight inputs, with both selected-output sinks of two blocks on
        bits = index % 512
        sw = {k: (bits >> i) & 1 for i, k in enumerate(GLOBAL_SW)}
        return {"prop": PROP, "runs": [{"sw": sw, "names": {}, "sel": [[1, 1, 1, None], [2, 1, 1, None]], "cur": 1, "preload": None, "input": ENUM_IN[index // 512], "entry": "string"}],
                "fault": None, "enumerated": True}
    return generate_random(rng, tier, index)


def generate_random(rng, tier, index):
    nruns = rng.range(1, 4)
    runs = []
    used_names = set()
    for r in range(nruns):
        mode = rng.below(10)
        if mode < 2:
            sw = {k: 1 for k in GLOBAL_SW}
        elif mode < 3:
            sw = {k: rng.below(2) for k in GLOBAL_SW if k in rng.sample(GLOBAL_SW, 3)}
        else:
            sw = {k: rng.below(2) for k in GLOBAL_SW}
            if rng.chance(80):
                sw["ErrorOn"] = 1
        names = {}
        for k in ("OutputFileName", "LogFileName", "ErrorFileName", "DumpFileName"):
            if rng.chance(30):
                nm = "c09_%s_%d_%d.txt" % (k[:3].lower(), r, rng.below(3))
                if nm not in used_names:
                    used_names.add(nm)
                    names[k] = nm
        sel = []
        for n in rng.sample([1, 2, 3, 5, 7], rng.range(0, 4)):
            nm = None
            if rng.chance(25):
                nm = "c09_so_%d_%d.txt" % (n, r)
            sel.append([n, rng.below(2) if mode >= 2 else 1, rng.below(2) if mode >= 2 else 1, nm])
        preload = None
        if r > 0 and rng.chance(25):
            preload = rng.choice(["good", "missing", "bad"])
        runs.append({"sw": sw, "names": names, "sel": sel, "cur": rng.choice([1, 1, 2, 3, 5, 7]), "preload": preload,
                     "input": rng.choice(INPUT_KEYS), "entry": rng.choice(["string", "string", "file", "acc"])})
    plan = {"prop": PROP, "runs": runs, "fault": None}
    if index % 8 == 5:
        plan["fault"] = {"stream": rng.choice(["Output", "Log", "Error", "Dump", "Sel"]),
                         "kind": rng.choice(["open_fail", "write_enospc", "write_short", "eintr", "close_fail"]),
                         "param": rng.choice([0, 1, 17, 100, 1000, 4096, 20000]), "run": rng.below(nruns)}
    return plan


def compile_plan(plan, reference=False):
    ops = [["create", "1", "sim"], call("cpp", "s1", "LoadDatabase", PHREEQC_DAT)]
    marks = []
    for ri, run in enumerate(plan["runs"]):
        sw = dict(run["sw"])
        pl = run.get("preload")
        if pl == "good":
            ops.append(call("cpp", "s1", "LoadDatabase", PHREEQC_DAT))
        elif pl == "missing":
            ops.append(call("cpp", "s1", "LoadDatabase", "c09_no_such_database.dat"))
        elif pl == "bad":
            ops.append(call("cpp", "s1", "LoadDatabaseString", "SOLUTION_MASTER_SPECIES\n H H+ -1 1 1.008\n Q Qq 0 1\nSOLUTION_SPECIES\n H+ = H+\n log_k o.0\n"))
        if reference:
            for k in list(sw):
                if k.endswith("FileOn"):
                    sw[k] = 0
                elif k.endswith("StringOn"):
                    sw[k] = 1
            sw.update({"OutputStringOn": 1, "LogStringOn": 1, "ErrorStringOn": 1, "DumpStringOn": 1, "ErrorOn": 1,
                       "OutputFileOn": 0, "LogFileOn": 0, "ErrorFileOn": 0, "DumpFileOn": 0})
        for k in GLOBAL_SW:
            if k in sw:
                ops.append(call("cpp", "s1", "Set" + k, sw[k]))
        if not reference:
            for k, v in sorted(run["names"].items()):
                ops.append(call("cpp", "s1", "Set" + k, v))
        for n, fon, son, nm in run["sel"]:
            ops.append(call("cpp", "s1", "SetCurrentSelectedOutputUserNumber", n))
            ops.append(call("cpp", "s1", "SetSelectedOutputFileOn", 0 if reference else fon))
            ops.append(call("cpp", "s1", "SetSelectedOutputStringOn", 1 if reference else son))
            if nm and not reference:
                ops.append(call("cpp", "s1", "SetSelectedOutputFileName", nm))
        if reference:
            # every block that exists so far gets its string switch on (switches are per user number)
            for n in (1, 2, 3, 5, 7):
                ops.append(call("cpp", "s1", "SetCurrentSelectedOutputUserNumber", n))
                ops.append(call("cpp", "s1", "SetSelectedOutputStringOn", 1))
                ops.append(call("cpp", "s1", "SetSelectedOutputFileOn", 0))
        ops.append(call("cpp", "s1", "SetCurrentSelectedOutputUserNumber", run["cur"]))
        for o in include_ops(run["input"]):
            ops.append(o)
        marks.append(("pre", ri, len(ops)))
        ops.append(["transcript", "cpp", "s1", "GS"])
        ops.append(["fs_log_clear"])
        f = plan.get("fault")
        if f and f["run"] == ri and not reference:
            marks.append(("fault", ri, len(ops)))
            ops.append(["fs_fault", "\x01PLACEHOLDER", str(FF[f["kind"]]), str(f["param"]), "0"])
        text = input_text(run["input"])
        marks.append(("run", ri, len(ops)))
        if run["entry"] == "string":
            ops.append(call("cpp", "s1", "RunString", text))
        elif run["entry"] == "file":
            ops.append(["mkfile", "c09_in_%d.pqi" % ri, text])
            marks[-1] = ("run", ri, len(ops))
            ops.append(call("cpp", "s1", "RunFile", "c09_in_%d.pqi" % ri))
        else:
            for line in text.split("\n"):
                ops.append(call("cpp", "s1", "AccumulateLine", line))
            marks[-1] = ("run", ri, len(ops))
            ops.append(call("cpp", "s1", "RunAccumulated"))
        ops.append(["fs_clear"])
        marks.append(("post", ri, len(ops)))
        ops.append(["transcript", "cpp", "s1", "GSLT"])
        marks.append(("fslog", ri, len(ops)))
        ops.append(["fs_log"])
    return ops, marks


from simlib import FF


def stream_file_name(stream, pre, plan_run, n=None):
    return pre["n." + stream + "FileName"]


def check_plan(ctx, plan):
    rep = Report()
    # the fault is attached to a file by name: the faulted stream gets an explicit, unique file name for that run
    f = plan.get("fault")
    if f:
        plan = json.loads(json.dumps(plan))
        f = plan["fault"]
        run = plan["runs"][f["run"]]
        if f["stream"] == "Sel":
            if run["sel"]:
                run["sel"][0][3] = "c09_faulted_sel_%d.txt" % f["run"]
                run["sel"][0][1] = 1          # a fault on a sink that is off tests nothing: the faulted sink is switched on
                target = run["sel"][0][3]
            else:
                plan["fault"] = f = None
        else:
            run["names"][f["stream"] + "FileName"] = target = "c09_faulted_%s_%d.txt" % (f["stream"], f["run"])
            run["sw"][f["stream"] + "FileOn"] = 1      # a fault on a sink that is off tests nothing: the faulted sink is switched on
            if f["stream"] == "Error":
                run["sw"]["ErrorOn"] = 1
    ops, marks = compile_plan(plan)
    if f:
        for o in ops:
            if o[0] == "fs_fault":
                o[1] = target
    res = ctx.execute("asan", [ops], timeout=240)
    if crash_violation(rep, res, "C09 history"):
        return rep
    rops, rmarks = compile_plan(plan, reference=True)
    ref = ctx.execute("asan", [rops], timeout=240)
    if crash_violation(rep, ref, "C09 reference history"):
        return rep
    R = {o.idx: o for o in res.client(0)}
    RR = {o.idx: o for o in ref.client(0)}
    m = {(k, ri): i for k, ri, i in marks}
    rm = {(k, ri): i for k, ri, i in rmarks}
    append = False
    diverged = False          # a run failed here but not in the reference (injected sink fault): later runs start from different states
    nontrivial = False
    dkey = []
    faulted = f is not None
    for ri, run in enumerate(plan["runs"]):
        pre, post = R[m[("pre", ri)]].kv(), R[m[("post", ri)]].kv()
        rpost = RR[rm[("post", ri)]].kv()
        runop, rrunop = R[m[("run", ri)]], RR[rm[("run", ri)]]
        if runop.exc() or rrunop.exc():
            rep.viol("exception", "exception:run", "run %d raised %s" % (ri, runop.exc() or rrunop.exc()))
            continue
        log = parse_fslog(R[m[("fslog", ri)]].f)
        text, has_dump, app, expect_err = INPUTS[run["input"]]
        if run.get("preload"):
            append = False        # a load (also a failing one: it unloads first) puts DUMP -append back to its default
        if app is not None:
            append = app
        where = "run %d (%s via %s)" % (ri, run["input"], run["entry"])
        this_fault = faulted and f["run"] == ri
        ret, rret = runop.f[0], rrunop.f[0]
        if expect_err:
            rep.count("runs_with_errors")
        if (ret != "0") != (rret != "0") and this_fault:
            diverged = True
        if not this_fault and not diverged and (ret != "0") != (rret != "0"):
            rep.viol("results", "C09:return_value_depends_on_sinks", "%s returned %s, reference (strings on, files off) returned %s" % (where, ret, rret))
        written = [e for e in log if "w" in e["mode"] or "a" in e["mode"]]
        accounted = set()

        def opens(path):
            es = [e for e in written if e["path"] == path]
            for e in es:
                accounted.add(id(e))
            return es

        # ---- output and log ------------------------------------------------------------
        for st in ("Output", "Log"):
            fon, son = pre["b.%sFileOn" % st] == "1", pre["b.%sStringOn" % st] == "1"
            s = post["s." + st]
            es = opens(pre["n.%sFileName" % st]) if fon else []
            if fon and len(es) != 1 and not this_fault:
                rep.viol("file_sink", "C09:%s:file_opens" % st, "%s: %s file sink on but %d opens of %r" % (where, st, len(es), pre["n.%sFileName" % st]))
            if not son:
                if s != NOTSET[st] or post["lc." + st] != "0":
                    rep.viol("disabled_sink", "C09:%s:string_disabled" % st, "%s: %s string switch off but GetString=%r, lines=%s" % (where, st, s[:80], post["lc." + st]))
            else:
                if ret != "0" and post["lc." + st] == "0" and s != "":
                    rep.viol("lines", "C09:lines_after_failed_run:" + st, "%s returned %s: the %s string holds %d lines but the line view is empty (count 0)" % (where, ret, st, len(getline_split(s))))
                else:
                    streams.check_lines(rep, "lines", st, s, post["l." + st], post["lc." + st], where)
                if fon and es and all(e["ok"] for e in es):
                    data = "".join(e["data"] for e in es)
                    if this_fault and f["stream"] == st:
                        if f["kind"] in ("write_enospc",):
                            pass    # content of a file after ENOSPC is decided by the C++ stream layer (a failed flush is retried from the start of its buffer)
                        elif f["kind"] in ("write_short", "eintr", "close_fail") and data != s:
                            rep.viol("file_sink", "C09:%s:transparent_fault_changed_file" % st, "%s: %s must be transparent, but %s" % (where, f["kind"], first_diff(data, s)))
                    elif data != s:
                        rep.viol("file_vs_string", "C09:%s:file!=string" % st, "%s: %s file and string differ %s" % (where, st, first_diff(data, s)))
                    rep.count("both_sinks_compared")
                    if len(s) >= 1024:
                        nontrivial = True
        # ---- error -----------------------------------------------------------------------
        eon = pre["b.ErrorOn"] == "1"
        efon, eson = pre["b.ErrorFileOn"] == "1", pre["b.ErrorStringOn"] == "1"
        es = opens(pre["n.ErrorFileName"]) if efon else []
        serr = post["s.Error"]
        if not eon:
            if serr != NOTSET["ErrorOff"]:
                rep.viol("disabled_sink", "C09:Error:erroron_off", "%s: ErrorOn off but GetErrorString=%r" % (where, serr[:80]))
            if efon and any(e["wbytes"] for e in es):
                rep.viol("disabled_sink", "C09:Error:file_written_while_erroron_off", "%s: ErrorOn off but the error file received %d bytes" % (where, sum(e["wbytes"] for e in es)))
        elif not eson:
            if serr != NOTSET["Error"] or post["lc.Error"] != "0":
                rep.viol("disabled_sink", "C09:Error:string_disabled", "%s: error string switch off but GetErrorString=%r lines=%s" % (where, serr[:80], post["lc.Error"]))
        else:
            streams.check_lines(rep, "lines", "Error", serr, post["l.Error"], post["lc.Error"], where)
            if (ret != "0") != (len(getline_split(serr)) > 0) and not this_fault:
                rep.viol("results", "C09:Error:return_vs_error_lines", "%s returned %s but the error string has %d lines" % (where, ret, len(getline_split(serr))))
            if efon and es and all(e["ok"] for e in es) and not (this_fault and f["stream"] == "Error"):
                flines = getline_split("".join(e["data"] for e in es))
                pos = 0
                for l in getline_split(serr):
                    try:
                        pos = flines.index(l, pos) + 1
                    except ValueError:
                        rep.viol("file_vs_string", "C09:Error:line_missing_in_file", "%s: error-string line %r does not appear (in order) in the error file" % (where, l[:160]))
                        break
                rep.count("error_subsequence_checked")
        streams.check_lines(rep, "lines", "Warning", post["s.Warning"], post["l.Warning"], post["lc.Warning"], where)
        # ---- dump ------------------------------------------------------------------------
        dfon, dson = pre["b.DumpFileOn"] == "1", pre["b.DumpStringOn"] == "1"
        dname = post["n.DumpFileName"]
        des = [e for e in written if e["path"] in (dname, pre["n.DumpFileName"])]
        for e in des:
            accounted.add(id(e))
        sd_pre, sd_post = pre["s.Dump"], post["s.Dump"]
        failed_early = expect_err or ret != "0"
        if not dson:
            if sd_post != NOTSET["Dump"]:
                rep.viol("disabled_sink", "C09:Dump:string_disabled", "%s: dump string switch off but GetDumpString=%r" % (where, sd_post[:80]))
        else:
            streams.check_lines(rep, "lines", "Dump", sd_post, post["l.Dump"], post["lc.Dump"], where)
        if not dfon and des:
            rep.viol("disabled_sink", "C09:Dump:file_disabled", "%s: dump file switch off but %r was opened" % (where, des[0]["path"]))
        if dfon and dson and not failed_early and not (this_fault and f["stream"] == "Dump"):
            # what each sink received during this run: bytes written to the dump descriptor(s) vs change of the string
            data = "".join(e["data"] for e in des if e["ok"])
            before = sd_pre if sd_pre != NOTSET["Dump"] else ""
            delta = None
            if data == "":
                if sd_post != before:
                    delta = sd_post
                    key = "C09:Dump:string_without_file"
                    if faulted and f["stream"] == "Dump" and f["kind"] == "open_fail" and f["run"] < ri:
                        key += ":after_failed_dump_open"
                    rep.viol("file_vs_string", key, "%s: the dump file sink received nothing but the dump string changed: %s" % (where, first_diff(before, sd_post)))
            else:
                want = (before + data) if append else data
                delta = data
                if sd_post != want:
                    key = "C09:Dump:file_without_string" if sd_post == before else "C09:Dump:file!=string"
                    rep.viol("file_vs_string", key, "%s: dump file received %d bytes (append=%s); dump string is not %s: %s" % (where, len(data), append, "old string + those bytes" if append else "those bytes", first_diff(want, sd_post)))
            if data or delta:
                rep.count("dump_compared")
            if len(data) >= 1024:
                nontrivial = True
        # ---- selected output -----------------------------------------------------------------
        nums = [int(x) for x in post["selnums"].split(",") if x != ""]
        for n in nums:
            p = "sel.%d." % n
            fon, son = post[p + "fileon"] == "1", post[p + "stringon"] == "1"
            name = post[p + "filename"]
            es = opens(name) if fon else []
            s = post.get(p + "string", "")
            tab = parse_table(post.get(p + "table", ""))
            streams.check_table_shape(rep, "table", n, post[p + "rows"], post[p + "cols"], tab, where)
            if not son:
                if s not in ("", NOTSET["Sel"]) or post[p + "lc"] != "0":
                    key = "C09:Sel:string_disabled"
                    if str(n) != post["cur"]:
                        key = "C09:sel_string_switch:user!=current"
                    rep.viol("disabled_sink", key, "%s: block %d string switch off (current user number %s) but its string holds %d bytes" % (where, n, post["cur"], len(s)))
            else:
                if ret != "0" and post[p + "lc"] == "0" and s != "":
                    rep.viol("lines", "C09:lines_after_failed_run:Sel", "%s returned %s: block %d string holds %d lines but the line view is empty (count 0)" % (where, ret, n, len(getline_split(s))))
                else:
                    streams.check_lines(rep, "lines", "Sel%d" % n, s, post[p + "lines"], post[p + "lc"], where)
                nrows = streams.check_sel_string_vs_table(rep, "sel_text", n, s, tab, where) if s or True else 0
                if tab and len(tab) > 1 and s == "":
                    key = "C09:Sel:string_enabled_but_empty"
                    if str(n) != post["cur"]:
                        key = "C09:sel_string_switch:user!=current"
                    # reported through sel_text:sel_rows already; give it the specific key as well
                    rep.violations = [v for v in rep.violations if not (v["cls"] == "sel_text" and ("block %d" % n) in v["detail"] and where in v["detail"])]
                    rep.viol("enabled_sink_empty", key, "%s: block %d string switch on (current user number %s) and the table has %d data rows, but the string is empty" % (where, n, post["cur"], len(tab) - 1))
                if fon and es and all(e["ok"] for e in es) and not (this_fault and f["stream"] == "Sel"):
                    data = "".join(e["data"] for e in es)
                    if data != s and s == "" and str(n) != post["cur"]:
                        rep.viol("enabled_sink_empty", "C09:sel_string_switch:user!=current", "%s: block %d string switch on (current user number %s): file received %d bytes, string is empty" % (where, n, post["cur"], len(data)))
                    elif data != s and not (s == "" and len(tab) > 1):
                        sl = getline_split(s)
                        head = getline_split(data)[:1]
                        dedup = sl[1:] if (len(sl) > 1 and sl[:1] == head and sl[1:2] == head) else [l for i, l in enumerate(sl) if not (i > 0 and l == sl[i - 1] and [l] == head)]
                        key = "C09:Sel:file!=string"
                        if "\n".join(dedup) + "\n" == data:
                            key = "C09:Sel:duplicate_heading_in_string"
                            first_sim = split_simulations(input_text(run["input"]))[0]
                            if re.search(r"-selected_output\s+false", first_sim):
                                key += ":punch_off_in_first_simulation"
                        rep.viol("file_vs_string", key, "%s: block %d file %r and string differ %s" % (where, n, name, first_diff(data, s)))
                    rep.count("sel_compared")
                    if len(s) >= 1024:
                        nontrivial = True
            if not fon:
                stray = [e for e in written if e["path"] == name]
                if stray:
                    for e in stray:
                        accounted.add(id(e))
                    rep.viol("disabled_sink", "C09:Sel:file_disabled", "%s: block %d file switch off but %r was opened" % (where, n, name))
            # results against the reference
            rtab = parse_table(rpost.get(p + "table", ""))
            if not this_fault and not diverged and not compare_tables(tab, rtab):
                rep.viol("results", "C09:results_depend_on_sinks", "%s: block %d table differs from the reference run (all strings on, files off): %s" % (where, n, table_diff(tab, rtab)))
        if not this_fault and not diverged and post["selnums"] != rpost["selnums"]:
            rep.viol("results", "C09:results_depend_on_sinks", "%s: defined blocks %s vs reference %s" % (where, post["selnums"], rpost["selnums"]))
        # ---- nothing else may have been written ---------------------------------------------------
        for e in written:
            if id(e) not in accounted and e["path"] not in ("error.inp",):
                rep.viol("disabled_sink", "C09:unexpected_file", "%s: file %r (mode %s, %d bytes) was opened although no enabled sink names it" % (where, e["path"], e["mode"], e["wbytes"]))
        if this_fault:
            nf = sum(e["faults"] for e in log)
            if nf:
                rep.count("fault_fired")
                rep.count("fault_fired:" + f["kind"])
            # the sinks that were not faulted and all results must equal the reference: compare strings that are on in both
            if f["kind"] in ("write_short", "eintr", "close_fail", "write_enospc") or f["stream"] != "Dump":
                if (ret != "0") != (rret != "0") and f["kind"] != "open_fail":
                    rep.viol("fault", "C09:fault_changes_return", "%s: with %s on the %s file the call returned %s, fault-free reference %s" % (where, f["kind"], f["stream"], ret, rret))
            for st in ("Output", "Log"):
                if pre["b.%sStringOn" % st] == "1" and post["s." + st] != rpost["s." + st]:
                    # a failed open of a selected-output or output file is reported as a warning only: output text may legitimately differ
                    if f["kind"] != "open_fail" and not (f["stream"] == "Dump"):
                        rep.viol("fault", "C09:fault_changes_other_sink", "%s: %s on the %s file changed the %s string: %s" % (where, f["kind"], f["stream"], st, first_diff(post["s." + st], rpost["s." + st])))
        dkey.append("%s|%s|%s|%s" % (run["input"], "".join(str(pre["b." + k]) for k in GLOBAL_SW), sorted(run["names"]), run["sel"]))
    if nontrivial:
        rep.distinct.append(hashlib.sha1(("||".join(dkey) + str(plan.get("fault"))).encode()).hexdigest()[:12])
    rep.count("runs", len(plan["runs"]))
    if plan.get("enumerated"):
        rep.count("enumerated_switch_vectors")
    rep.sample = {"runs": [{k: r.get(k) for k in ("input", "entry", "sw", "sel", "cur", "preload")} for r in plan["runs"]], "fault": plan.get("fault")}
    rep.count("runs_after_failed_load", sum(1 for r in plan["runs"] if r.get("preload") in ("missing", "bad")))
    return rep


def cell_close(a, b):
    if a == b:
        return True
    if a[:1] == "D" and b[:1] == "D":
        x, y = float.fromhex(a[1:]), float.fromhex(b[1:])
        return abs(x - y) <= 1e-6 * max(abs(x), abs(y))
    return False


def compare_tables(t1, t2):
    if len(t1) != len(t2):
        return False
    # pe is indeterminate to solver tolerance in a system without a redox couple (it moves in the 4th digit with the path taken): not a result
    skip = set(j for j, h in enumerate(t1[0]) if h == "Spe") if t1 else set()
    # saturation indices far below saturation are logarithms of trace amounts (1e-20 atm of a gas): beyond solver tolerance
    trace = set(j for j, h in enumerate(t1[0]) if h.startswith("Ssi_")) if t1 else set()
    for r1, r2 in zip(t1, t2):
        if len(r1) != len(r2):
            return False
        for j, (a, b) in enumerate(zip(r1, r2)):
            if j in skip:
                continue
            if j in trace and a[:1] == "D" and b[:1] == "D":
                x, y = float.fromhex(a[1:]), float.fromhex(b[1:])
                if abs(x - y) <= (5e-7 if abs(x) < 10 else 0.5):
                    continue
            if not cell_close(a, b):
                return False
    return True


def table_diff(t1, t2):
    if len(t1) != len(t2):
        return "%d rows vs %d rows" % (len(t1), len(t2))
    for i, (r1, r2) in enumerate(zip(t1, t2)):
        if len(r1) != len(r2):
            return "row %d: %d vs %d cells" % (i, len(r1), len(r2))
        for j, (a, b) in enumerate(zip(r1, r2)):
            if not cell_close(a, b):
                return "cell (%d,%d): %r vs %r" % (i, j, a, b)
    return "?"


def shrink_candidates(plan):
    runs = plan["runs"]
    if len(runs) > 1:
        for i in range(len(runs)):
            c = dict(plan)
            c["runs"] = runs[:i] + runs[i + 1:]
            if c.get("fault"):
                fr = c["fault"]["run"]
                if fr == i:
                    continue
                c["fault"] = dict(c["fault"], run=fr - (1 if fr > i else 0))
            yield c
    if plan.get("fault"):
        c = dict(plan)
        c["fault"] = None
        yield c
    for i, r in enumerate(runs):
        if r["names"]:
            c = dict(plan)
            c["runs"] = runs[:i] + [dict(r, names={})] + runs[i + 1:]
            yield c
        if r["sel"]:
            for j in range(len(r["sel"])):
                c = dict(plan)
                c["runs"] = runs[:i] + [dict(r, sel=r["sel"][:j] + r["sel"][j + 1:])] + runs[i + 1:]
                yield c
        if r["entry"] != "string":
            c = dict(plan)
            c["runs"] = runs[:i] + [dict(r, entry="string")] + runs[i + 1:]
            yield c
        if r.get("preload"):
            c = dict(plan)
            c["runs"] = runs[:i] + [dict(r, preload=None)] + runs[i + 1:]
            yield c
        for k in list(r["sw"]):
            if r["sw"][k] != (1 if k in ("ErrorOn", "ErrorStringOn") else 0):
                c = dict(plan)
                nsw = dict(r["sw"])
                del nsw[k]
                c["runs"] = runs[:i] + [dict(r, sw=nsw)] + runs[i + 1:]
                yield c
