"""C10 — captured reaction state can be re-instated without changing behaviour (checkpoint / crash / restart).

RAW text is the durable state; destroying the instance is the crash; a new instance that loads the database,
replays the definitions and reads the text is the restart.  Nothing survives except that text and the definitions.

History = prologue (definitions only) + 1-5 state-building calls covering the entity kinds + follow-ups that only use
numbered entities.  The checkpoint is taken at a boundary between calls, (a) from GetDumpString, (b) from the dump FILE
captured by the file layer and read back through RunFile under short reads / EINTR.

Oracles: (1) restoring raises no error; (2) fixed point: D' = dump(restore(D)), D'' = dump(restore(D')), D'' == D';
(3) follow-ups on the restored instance give the same selected-output cells as on the original (relative 1e-7);
(4) in-memory copies (storage bin, serializer, engine copy construction) leave the RAW text and the follow-up results
unchanged; (5) restoring only totals / total H / total O / charge of a solution through SOLUTION_MODIFY over a solution of
different composition gives the same follow-up results."""
import hashlib, json, math, re
from common import *
from runner import Report, crash_violation
from simlib import FF
from streams import parse_table
import workloads as W
import c07, c04, raw

PROP = "C10"
LEVEL = "exploration"
VARIANTS = ["asan"]
RULE = ("histories of 1-5 state-building calls drawn from a corpus covering solutions (incl. isotopes on iso.dat, pitzer), exchangers, surfaces of all electrostatic "
        "models, fixed-pressure and fixed-volume gas phases, pure-phase and solid-solution assemblages, kinetics mid-integration, mix, reaction, temperature and "
        "pressure entities; checkpoint after a drawn call; restore through RunString or through the dump file with short reads; follow-ups: equilibration of a "
        "stored solution, RUN_CELLS over the stored cells, MIX, ADVECTION. Non-trivial = the checkpoint holds >= 3 entity kinds and a follow-up produced rows; "
        "distinct = distinct (builders, checkpoint index, restore path, follow-ups).")
COMPONENTS = {"real": "whole IPhreeqc library from /repo's working tree (ASan+UBSan); cxxStorageBin, Serializer/Dictionary and Phreeqc copy construction reached through a harness subclass",
              "stub": "libc file calls of sandbox files (dump file capture; short reads, EINTR on the restore file), clock() frozen"}
ASSUMPTIONS = ["a destroyed instance keeps nothing: the restart runs in a new instance of the same process",
               "relative tolerance 1e-7 on follow-up numbers as the statement grants, absolute floor 1e-10 (alkalinity and saturation indices near zero are differences of large numbers); pe is not compared (indeterminate without a redox couple)"]
REACH_PROBES = ["restores", "fixed_point_checked", "followup_cells_compared", "file_restores", "inmemory_roundtrips", "solution_modify_restores", "kinds:surface", "kinds:gas_phase", "kinds:kinetics", "kinds:solid_solutions", "kinds:exchange"]
tiers = {"quick": dict(runs=1800, budget_s=160, workers=16), "thorough": dict(runs=10000, budget_s=1700, workers=16)}

S1 = c07.S1
BUILD = {
    "b_surf_models": S1 + "SURFACE 1\n Hfo_w 1e-3 600 1\n Hfo_s 5e-5\n -equilibrate 1\nSURFACE 2\n -no_edl\n Hfo_w 1e-3 600 1\n -equilibrate 1\nSURFACE 3\n -diffuse_layer 1e-8\n Hfo_w 1e-3 600 1\n -equilibrate 1\n"
                     "SURFACE 4\n -donnan 1e-8\n Hfo_w 1e-3 600 1\n -equilibrate 1\nEND\nUSE solution 1\nUSE surface 3\nREACTION 1\n NaCl 1\n 1 mmol\nSAVE solution 3\nSAVE surface 3\nEND\nUSE solution 1\nUSE surface 4\nSAVE solution 4\nSAVE surface 4\nEND\n",
    "b_entities": S1 + "MIX 5\n 1 0.7\n 1 0.3\nREACTION 5\n NaCl 1\n CaCl2 0.5\n 1 2 mmol\nREACTION_TEMPERATURE 5\n 30 50\nREACTION_PRESSURE 5\n 1 20 40\nEQUILIBRIUM_PHASES 5\n Calcite 0 0.5\n Dolomite 0 0 dissolve_only\n CO2(g) -2 1\n"
                  "EXCHANGE 5\n X 0.02\n -equilibrate 1\nSAVE solution 5\nEND\n",
    "b_gases": S1 + "GAS_PHASE 6\n -fixed_pressure\n -pressure 1.5\n -volume 2\n -temperature 30\n CO2(g) 0.02\n N2(g) 0.9\n O2(g) 0.1\nGAS_PHASE 7\n -fixed_volume\n -volume 1.2\n CO2(g) 0.05\n CH4(g) 0.01\nEND\n"
               "USE solution 1\nUSE gas_phase 6\nSAVE solution 6\nSAVE gas_phase 6\nEND\nUSE solution 1\nUSE gas_phase 7\nSAVE solution 7\nSAVE gas_phase 7\nEND\n",
    "b_ss": S1 + " Sr 0.05\n Ba 0.01\nSOLID_SOLUTIONS 8\n CaSrBa\n -comp Calcite 0.01\n -comp Strontianite 0.002\n -comp Witherite 0.001\n Ideal2\n -comp1 Aragonite 0.001\n -comp2 Strontianite 0.001\n -Gugg_nondim 1.5 0.2\nSAVE solution 8\nSAVE solid_solutions 8\nEND\n",
    "b_kin_mid": "RATES\n dec\n -start\n10 SAVE parm(1) * M * TIME\n -end\n grow\n -start\n10 SAVE -parm(1) * TIME\n -end\n" + S1 + "KINETICS 9\n dec\n -formula NaCl 1\n -m0 0.01\n -m 0.008\n -parms 1e-5\n -tol 1e-9\n grow\n -formula Calcite 1 CO2 0.1\n -m0 0.001\n -parms 1e-9\n -steps 1000 2000\n -step_divide 10\n -runge_kutta 6\n -bad_step_max 400\n"
                 "SAVE solution 9\nEND\n",
    "b_hot": c07.STICKY["h_hot"],
    "b_react": W.text("w_react"),
    "b_exch_surf": W.text("w_exch_surf"),
    "b_gas_ss": W.text("w_gas_ss"),
    "b_kin_cvode": W.text("w_kin_cvode"),
    "b_adv": W.text("w_adv"),
    "b_trans": W.text("w_trans"),
    "b_chain": c04.HAND["c04_save_use_chain"],
    "b_title_dump": c04.HAND["c04_title_dump"],
    "b_isotope_sol": "SOLUTION 11\n pH 7.5\n Ca 1\n C 2 charge\n -isotope 13C -12.0 1.0\n -isotope 34S 9.5 0.5\n S(6) 0.3\nSOLUTION 12\n pH 6.9\n Ca 2\n C 4\n -isotope 13C -7.0 1.4\nEND\n",
    "b_related": S1 + "EQUILIBRIUM_PHASES 13\n Calcite 0 0.05\n Goethite 0 0.01\nKINETICS 13\n dec\n -formula NaCl 1\n -m0 0.02\n -parms 2e-4\n -steps 500 1000\n"
                 "EXCHANGE 13\n X Calcite equilibrium_phase 0.05\n Y dec kinetic_reactant 0.25\n -equilibrate 1\nSURFACE 13\n Hfo_w Goethite equilibrium_phase 0.2 5.3e4\n -equilibrate 1\n"
                 "SAVE solution 13\nSAVE exchange 13\nSAVE surface 13\nSAVE equilibrium_phases 13\nEND\n",
    # a rate with 13 parameters: the RAW dump spreads -d_params over three lines (5 + 6 + 2)
    "b_kin_parms": "SOLUTION 14\n pH 7.2\n Na 4\n Cl 4 charge\n Ca 0.5\n C 1\nKINETICS 14\n multi\n -formula NaCl 1 KBr 0.5\n -m0 0.02\n -parms 1e-7 2 3 4 5 6 2 0.5 1.5 0.25 7 8 9\n -steps 300 600\n -tol 1e-9\nSAVE solution 14\nEND\n",
    # step lists longer than one line of the RAW dump (5 values on the first line, 6 on the following ones)
    "b_lists": "SOLUTION 15\n pH 7\n Na 2\n Cl 2 charge\n Ca 0.4\n C 0.8\nREACTION_TEMPERATURE 15\n 10 20 30 40 50 60 70 80\nREACTION_PRESSURE 15\n 1 5 10 15 20 25 30 35\n"
               "REACTION 15\n NaCl 1\n CaCl2 0.25\n 0.1 0.2 0.3 0.4 0.5 0.6 0.7 0.8 mmol\nREACTION_TEMPERATURE 16\n 15 75 in 7 steps\nREACTION 16\n HCl 1\n 1 mmol in 8 steps\nSAVE solution 15\nEND\n",
    "b_redox": "SOLUTION 10\n pH 6.5\n pe 2\n Fe(2) 0.1\n Fe(3) 0.002\n N(5) 0.4\n N(-3) 0.05\n S(6) 1\n S(-2) 0.001\n Na 3\n Cl 2 charge\n -water 0.7\nEND\n",
}
BUILD_DB = {k: "phreeqc" for k in BUILD}
BUILD["b_iso"] = None
BUILD_DB["b_iso"] = "iso"
BUILD["b_pitzer"] = c07.STICKY["h_pz"] + "USE solution 1\nEQUILIBRIUM_PHASES 1\n Halite 0 0\n Gypsum 0 1\nSAVE solution 2\nSAVE equilibrium_phases 2\nEND\n"
BUILD_DB["b_pitzer"] = "pitzer"
PROLOGUE = {"phreeqc": "EXCHANGE_MASTER_SPECIES\n Y Y-\nEXCHANGE_SPECIES\n Y- = Y-\n log_k 0\n Na+ + Y- = NaY\n log_k 0\n K+ + Y- = KY\n log_k 0.7\n Ca+2 + 2Y- = CaY2\n log_k 0.8\nRATES\n dec\n -start\n10 SAVE parm(1) * M * TIME\n -end\n grow\n -start\n10 SAVE -parm(1) * TIME\n -end\n decay\n -start\n 10 rate = parm(1) * TOT(\"Na\")\n 20 moles = rate * TIME\n 30 SAVE moles\n -end\n multi\n -start\n 10 r = parm(1) * (parm(2) + parm(3) + parm(4) + parm(5) + parm(6)) * parm(7) ^ parm(8) * (parm(9) + parm(10)) / (parm(11) + parm(12) + parm(13))\n 20 SAVE r * TIME\n -end\n"
                        " cc\n -start\n 10 si_cc = SI(\"Calcite\")\n 20 rate = parm(1) * (1 - 10^si_cc)\n 30 moles = rate * TIME\n 40 SAVE moles\n -end\nEND\n",
            "iso": "", "pitzer": ""}
SEL = "SELECTED_OUTPUT 9\n -reset false\n -high_precision true\n -solution\n -pH\n -alkalinity\n -ionic_strength\n -water\n -charge_balance\n -totals Ca Na C Cl Fe S Sr\n -si Calcite\n"


def build_text(name):
    if name == "b_iso":
        return example_text("ex20a")
    return BUILD[name]


def generate(rng, tier, index):
    fam = rng.choice(["phreeqc"] * 8 + ["iso", "pitzer"])
    if fam == "phreeqc":
        names = rng.sample([k for k in BUILD if BUILD_DB[k] == "phreeqc"], rng.range(1, 5))
    else:
        names = ["b_iso"] if fam == "iso" else ["b_pitzer"]
    k = rng.range(1, len(names))
    return {"prop": PROP, "db": fam, "builders": names, "checkpoint": k, "via_file": rng.chance(35), "chunk": rng.choice([0, 1, 13, 512]), "eintr": rng.choice([0, 0, 2]),
            "followups": [rng.choice(["use_eq", "run_cells", "run_kin", "mix", "adv", "use_eq_hot", "use_stored", "use_stored"]) for _ in range(rng.range(1, 3))], "pick": rng.below(1000),
            "inmem": rng.choice([None, None, "storagebin_roundtrip", "serialize_roundtrip", "copy_engine_dump", "storagebin_cell_roundtrip"]), "modify": rng.chance(40)}


def followup_text(kind, sols, others, pick):
    if not sols:
        return None
    n = sols[pick % len(sols)]
    if kind == "use_eq":
        return SEL + "USE solution %d\nEQUILIBRIUM_PHASES 99\n Calcite 0 0.01\n Gypsum 0 0\nSAVE solution 98\nEND\n" % n
    if kind == "use_eq_hot":
        return SEL + "USE solution %d\nREACTION_TEMPERATURE 99\n 45\nREACTION 99\n HCl 1\n 0.1 0.2 mmol\nEND\n" % n
    if kind == "use_stored":
        # a calculation that uses the stored step lists themselves (REACTION amounts, temperature and pressure lists, MIX fractions)
        nums = sorted(set(e.n for e in others if e.kind in ("reaction", "reaction_temperature", "reaction_pressure") and e.n >= 0))
        if not nums:
            return None
        m = nums[(pick // 3) % len(nums)]
        t = SEL + "USE solution %d\n" % n
        for kd in ("reaction", "reaction_temperature", "reaction_pressure"):
            if any(e.kind == kd and e.n == m for e in others):
                t += "USE %s %d\n" % (kd, m)
        return t + "END\n"
    kin = set(e.n for e in others if e.kind == "kinetics")
    if kind == "run_kin":
        cells = [c for c in sols if 0 < c < 60 and c in kin][:3]
        if not cells:
            return None
        return SEL + "RUN_CELLS\n -cells %s\n -time_step 500\nEND\n" % " ".join(str(c) for c in cells)
    if kind == "run_cells":
        cells = [c for c in sols if 0 < c < 60 and c not in kin][:6]
        if not cells:
            return None
        return SEL + "RUN_CELLS\n -cells %s\n -time_step 500\nEND\n" % " ".join(str(c) for c in cells)
    if kind == "mix":
        m = sols[(pick // 7) % len(sols)]
        return SEL + "MIX 97\n %d 0.4\n %d 0.6\nSAVE solution 96\nEND\n" % (n, m)
    if kind == "adv":
        if not all(c in sols for c in (0, 1, 2, 3)):
            return None
        return SEL + "ADVECTION\n -cells 3\n -shifts 2\n -punch_cells 1-3\nEND\n"
    return None


def head_ops(plan):
    return [["create", "1", "sim"], call("cpp", "s1", "SetDumpStringOn", 1), call("cpp", "s1", "LoadDatabase", c07.DBS[plan["db"]])] + \
           ([call("cpp", "s1", "RunString", PROLOGUE[plan["db"]])] if PROLOGUE[plan["db"]] else [])


DUMPALL = "DUMP\n -all\nEND\n"


def tables(kv):
    # only the follow-up's own block (user number 9): SELECTED_OUTPUT blocks defined by a builder are definitions, and only the
    # prologue's definitions are replayed at the restart
    return {9: parse_table(kv.get("sel.9.table", ""))}


def norm_ws(s):
    # descriptions are labels, not reaction state (the serializer does not carry them)
    return "\n".join(re.sub(r"^([A-Z_]+_RAW\s+-?\d+).*$", r"\1", l).rstrip() for l in s.split("\n"))


def close(a, b, floor=1e-10):
    if a == b:
        return True
    if a[:1] == "D" and b[:1] == "D":
        x, y = float.fromhex(a[1:]), float.fromhex(b[1:])
        if x != x and y != y:
            return True
        return abs(x - y) <= 1e-7 * max(abs(x), abs(y)) or abs(x - y) <= floor
    return False


def cmp_tables(rep, key, what, ta, tb, rel=1e-7):
    n = 0
    for u in sorted(set(ta) | set(tb)):
        a, b = ta.get(u, []), tb.get(u, [])
        if len(a) != len(b):
            rep.viol("followup", key + ":rows", "%s: user number %d has %d rows on the original, %d on the restored state" % (what, u, len(a), len(b)))
            return n
        for ri, (ra, rb) in enumerate(zip(a, b)):
            if len(ra) != len(rb):
                rep.viol("followup", key + ":cols", "%s: row %d has %d vs %d cells" % (what, ri, len(ra), len(rb)))
                return n
            for ci, (x, y) in enumerate(zip(ra, rb)):
                n += 1
                head = a[0][ci][1:] if a and ci < len(a[0]) else "?"
                # saturation indices of phases held at equilibrium are zero to solver tolerance only
                floor = 1e-10
                if head.startswith("si_"):
                    # at equilibrium the index is zero to solver tolerance; far below saturation it is the logarithm of trace amounts
                    # (elements present at the 1e-15 mol level after transport), where 14-digit text cannot carry 1e-7 of the logarithm
                    # (a relative 1e-7 on two activities is an absolute 1e-7 on their logarithmic product)
                    floor = 5e-7 if (x[:1] == "D" and abs(float.fromhex(x[1:])) < 10) else 0.5
                if rel > 1e-7 and x[:1] == "D" and y[:1] == "D" and abs(float.fromhex(x[1:]) - float.fromhex(y[1:])) <= rel * max(abs(float.fromhex(x[1:])), abs(float.fromhex(y[1:])), 1e-3):
                    continue
                if not close(x, y, floor):
                    if head == "pH" and x[:1] == "D" and y[:1] == "D" and abs(float.fromhex(x[1:]) - float.fromhex(y[1:])) <= 1e-5 and key == "C10:followup":
                        rep.viol("followup", key + ":pH_within_dump_rounding", "%s: row %d pH %r on the original, %r on the restored state" % (what, ri, float.fromhex(x[1:]), float.fromhex(y[1:])))
                        return n
                    rep.viol("followup", key + ":value", "%s: row %d column %r: %r on the original, %r on the restored state" % (what, ri, head, x, y))
                    return n
    return n


def check_plan(ctx, plan):
    rep = Report()
    head = head_ops(plan)
    builders = plan["builders"]
    k = plan["checkpoint"]
    bops = [call("cpp", "s1", "RunString", build_text(b)) for b in builders[:k]]
    # ---- original: builders, checkpoint, follow-ups ------------------------------------------------------------
    opsA = head + bops + [call("cpp", "s1", "SetDumpFileOn", 1), call("cpp", "s1", "SetDumpFileName", "c10_ckpt.dmp"), ["fs_log_clear"], call("cpp", "s1", "RunString", DUMPALL), call("cpp", "s1", "GetDumpString"), ["fs_log"],
                          call("cpp", "s1", "SetDumpFileOn", 0)]
    a0 = ctx.execute("asan", [opsA], timeout=120)
    if crash_violation(rep, a0, "C10 original history"):
        return rep
    A0 = a0.client(0)
    if any(A0[len(head) + i].f[0] != "0" for i in range(len(bops))):
        rep.count("skipped_builder_error")
        rep.sample = {"builders": builders, "skipped": "a builder returned errors"}
        return rep
    D = A0[len(head) + len(bops) + 4].f[0]
    from streams import parse_fslog
    flog = [e for e in parse_fslog(A0[len(head) + len(bops) + 5].f) if e["path"] == "c10_ckpt.dmp"]
    Dfile = "".join(e["data"] for e in flog)
    if flog and Dfile != D:
        rep.viol("checkpoint", "C10:dump_file!=dump_string", "the dump file and the dump string of one DUMP -all differ: %s" % first_diff(Dfile, D))
    ents, _ = raw.entities(D)
    kinds = set(e.kind for e in ents)
    for kd in kinds:
        rep.count("kinds:" + kd)
    sols = sorted(set(e.n for e in ents if e.kind == "solution" and e.n >= 0))
    fpairs = [(f, followup_text(f, sols, ents, plan["pick"] + i)) for i, f in enumerate(plan["followups"])]
    fus = [t for f, t in fpairs if t]
    fkinds = [f for f, t in fpairs if t]
    fops = []
    for t in fus:
        fops += [call("cpp", "s1", "RunString", t), ["transcript", "cpp", "s1", "T"], call("cpp", "s1", "GetErrorString")]
    tail = [call("cpp", "s1", "RunString", DUMPALL), call("cpp", "s1", "GetDumpString")]

    def run_followups(prefix, what):
        r = ctx.execute("asan", [prefix + fops + tail], timeout=120)
        if crash_violation(rep, r, what):
            return None
        return r.client(0)

    A = run_followups(head + bops, "C10 original history with follow-ups")
    if A is None:
        return rep
    baseA = len(head) + len(bops)
    # ---- restart from the durable text ---------------------------------------------------------------------------
    def restore_ops(text, via_file, tag):
        if via_file:
            o = [["mkfile", "c10_restore_%s.pqi" % tag, text]]
            if plan["chunk"]:
                o.append(["fs_fault", "c10_restore_%s.pqi" % tag, str(FF["read_short"]), str(plan["chunk"]), "0"])
            if plan["eintr"]:
                o.append(["fs_fault", "c10_restore_%s.pqi" % tag, str(FF["eintr"]), str(plan["eintr"]), "0"])
            return o + [call("cpp", "s1", "RunFile", "c10_restore_%s.pqi" % tag), ["fs_clear"]]
        return [call("cpp", "s1", "RunString", text)]

    text = Dfile if (plan["via_file"] and flog) else D
    rops = restore_ops(text, plan["via_file"], "d")
    pre = head + rops + [call("cpp", "s1", "GetErrorString"), call("cpp", "s1", "GetWarningString")]
    B = run_followups(pre, "C10 restart from the checkpoint text")
    if B is None:
        return rep
    rep.count("restores")
    if plan["via_file"]:
        rep.count("file_restores")
    ridx = len(head) + len(rops) - (2 if plan["via_file"] else 1)
    rret, rerr = B[ridx].f[0], B[len(head) + len(rops)].f[0]
    desc = "builders %s, checkpoint after call %d, restore via %s" % ("+".join(builders[:k]), k, "dump file" if plan["via_file"] else "dump string")
    if rret != "0" or rerr.strip() != "":
        first = [l for l in rerr.split("\n") if l.strip()][:3]
        kd = "isotope" if "sotope" in rerr or any(e.kind == "solution" and "-Isotope" in e.body() for e in ents) else "other"
        rep.viol("restore_errors", "C10:restore_raises_errors:" + kd, "%s: reading the RAW text returned %s with errors %r" % (desc, rret, first))
    baseB = len(pre)
    # (3) equivalence of follow-ups
    ncell = 0
    for i in range(len(fus)):
        ra, rb = A[baseA + 3 * i], B[baseB + 3 * i]
        if ra.f[0] != rb.f[0]:
            rep.viol("followup", "C10:followup:return", "%s: follow-up %d returned %s on the original, %s on the restored state; errors %r" % (desc, i, ra.f[0], rb.f[0], B[baseB + 3 * i + 2].f[0][:300]))
            continue
        # kinetic integration is adaptive: its error tolerance (1e-8 mol per step, accumulated) bounds the agreement, not the 14-digit text
        ncell += cmp_tables(rep, "C10:followup", "%s, follow-up %d (%s)" % (desc, i, fkinds[i]), tables(A[baseA + 3 * i + 1].kv()), tables(B[baseB + 3 * i + 1].kv()),
                            rel=(1e-4 if fkinds[i] == "run_kin" else 1e-7))
    rep.count("followup_cells_compared", ncell)
    # (2) fixed point
    d1 = ctx.execute("asan", [head + rops + tail], timeout=120)
    if crash_violation(rep, d1, "C10 restore + dump"):
        return rep
    D1 = d1.client(0)[-1].f[0]
    d2 = ctx.execute("asan", [head + restore_ops(D1, False, "d1") + tail], timeout=120)
    if crash_violation(rep, d2, "C10 second restore + dump"):
        return rep
    D2 = d2.client(0)[-1].f[0]
    rep.count("fixed_point_checked")
    if c04.mask_dump(D2) != c04.mask_dump(D1):
        e1, e2 = raw.entities(D1)[0], raw.entities(D2)[0]
        kd = "other"
        for x, y in zip(e1, e2):
            if x.body() != y.body():
                kd = x.kind
                break
        import c14
        if c14.numeric_equal(norm_ws(c04.mask_dump(D1)), norm_ws(c04.mask_dump(D2)), tol=1e-12):
            kd = "last_digit:" + kd
        rep.viol("fixed_point", "C10:not_a_fixed_point:" + kd, "%s: dump(restore(D')) differs from D' after one cycle: %s" % (desc, first_diff(c04.mask_dump(D1), c04.mask_dump(D2))))
    if raw.keyset(D1) != raw.keyset(D):
        rep.viol("fixed_point", "C10:entities_lost", "%s: entities in the checkpoint %r, after restore %r" % (desc, sorted(raw.keyset(D) - raw.keyset(D1)), sorted(raw.keyset(D1) - raw.keyset(D))))
    # (4) in-memory copies
    if plan["inmem"] and not (plan["inmem"] == "copy_engine_dump" and plan["db"] != "phreeqc"):
        what = plan["inmem"]
        args = [str(sols[0])] if (what in ("storagebin_cell_roundtrip", "serialize_roundtrip") and sols) else []
        if what == "serialize_roundtrip" and sols:
            args = [str(sols[0]), str(sols[0])]
        if what == "copy_engine_dump":
            mo = head + bops + [["engine", "s1", "dump_raw"], ["engine", "s1", "copy_engine_dump"]]
            m = ctx.execute("asan", [mo], timeout=120)
            if crash_violation(rep, m, "C10 engine copy construction"):
                return rep
            x, y = m.client(0)[-2].f[0], m.client(0)[-1].f[0]
            rep.count("inmemory_roundtrips")
            if norm_ws(x) != norm_ws(y):
                rep.viol("inmemory", "C10:inmemory:copy_engine", "%s: RAW text of a copy-constructed engine differs from the original: %s" % (desc, first_diff(x, y)))
        else:
            mo = head + bops + [["engine", "s1", "dump_raw"], ["engine", "s1", what] + args, ["engine", "s1", "dump_raw"]]
            M = run_followups(mo, "C10 in-memory round trip " + what)
            if M is None:
                return rep
            rep.count("inmemory_roundtrips")
            bm = len(mo)
            x, y = M[bm - 3].f[0], M[bm - 1].f[0]
            if M[bm - 2].exc() or M[bm - 2].f[0].startswith("EXC"):
                rep.viol("inmemory", "C10:inmemory:exception", "%s: %s raised %s" % (desc, what, M[bm - 2].f[0][:200]))
            elif what != "serialize_roundtrip" and norm_ws(x) != norm_ws(y):
                rep.viol("inmemory", "C10:inmemory:" + what, "%s: RAW text differs after %s: %s" % (desc, what, first_diff(norm_ws(x), norm_ws(y))))
            elif raw.keyset(x) != raw.keyset(y):
                rep.viol("inmemory", "C10:inmemory:entities:" + what, "%s: entities differ after %s: %r" % (desc, what, sorted(raw.keyset(x) ^ raw.keyset(y))))
            if True:
                # the serializer does not carry workspace fields that every calculation recomputes (viscos_0): for it the
                # statement's requirement, equal follow-up results, is what is checked
                for i in range(len(fus)):
                    if M[bm + 3 * i].f[0] == A[baseA + 3 * i].f[0]:
                        cmp_tables(rep, "C10:inmemory_followup", "%s after %s, follow-up %d" % (desc, what, i), tables(A[baseA + 3 * i + 1].kv()), tables(M[bm + 3 * i + 1].kv()))
    # (5) SOLUTION_MODIFY restore of totals / H / O / charge
    if plan["modify"] and sols and plan["db"] == "phreeqc":
        n = sols[plan["pick"] % len(sols)]
        se = [e for e in ents if e.kind == "solution" and e.n == n][0]
        f = raw.solution_fields(se)
        other = "SOLUTION %d\n temp %r\n pressure %r\n pH 6.1\n pe 3\n Fe(2) 0.1\n Fe(3) 0.2\n N(5) 1\n N(-3) 0.3\n N(3) 0.01\n S(6) 0.4\n S(-2) 0.002\n Na 3\n Cl 3\n K 0.1\n -water %r\nEND\n" % (n, f["temp"], f["pressure"], f["mass_water"])
        # temperature and pressure are carried along (the initial-solution calculation of the overwritten solution may clamp its
        # pressure to the saturation pressure, which is not what is being restored)
        mod = "SOLUTION_MODIFY %d\n -temp %r\n -pressure %r\n -total_h %r\n -total_o %r\n -cb %r\n -totals\n" % (n, f["temp"], f["pressure"], f["total_h"], f["total_o"], f["cb"])
        elems = {}
        for el, v in f["totals"].items():
            elems[el] = v
        # everything the overwritten solution holds and the captured one does not is set to zero, valence state by valence state
        for st in ("Fe(2)", "Fe(3)", "N(5)", "N(-3)", "N(3)", "S(6)", "S(-2)", "Na", "Cl", "K"):
            el = st.split("(")[0]
            if el in elems or st in elems:
                continue
            if any(x.startswith(el + "(") for x in elems):
                elems[st] = 0.0          # the captured solution lists other valence states of this element
            else:
                elems[el] = 0.0
        for el, v in sorted(elems.items()):
            mod += "  %s %r\n" % (el, v)
        mod += "END\n"
        fu = SEL + "USE solution %d\nEQUILIBRIUM_PHASES 99\n Calcite 0 0.01\n Goethite 0 0\nREACTION_TEMPERATURE 99\n 40\nEND\n" % n
        o1 = head + restore_ops(D, False, "m") + [call("cpp", "s1", "RunString", fu), ["transcript", "cpp", "s1", "T"]]
        o2 = head + [call("cpp", "s1", "RunString", other), call("cpp", "s1", "RunString", mod), call("cpp", "s1", "GetErrorString"), call("cpp", "s1", "RunString", fu), ["transcript", "cpp", "s1", "T"]]
        m1 = ctx.execute("asan", [o1], timeout=120)
        m2 = ctx.execute("asan", [o2], timeout=120)
        if crash_violation(rep, m1, "C10 SOLUTION_MODIFY reference") or crash_violation(rep, m2, "C10 SOLUTION_MODIFY restore"):
            return rep
        M1, M2 = m1.client(0), m2.client(0)
        if M2[len(head)].f[0] == "0" and M2[len(head) + 1].f[0] == "0" and M1[-2].f[0] == "0":
            rep.count("solution_modify_restores")
            if M2[-2].f[0] != "0":
                rep.viol("modify", "C10:modify:followup_fails", "%s: after SOLUTION_MODIFY of solution %d the follow-up returned %s" % (desc, n, M2[-2].f[0]))
            else:
                cmp_tables(rep, "C10:modify", "%s, totals/H/O/charge of solution %d restored through SOLUTION_MODIFY" % (desc, n), tables(M1[-1].kv()), tables(M2[-1].kv()))
        else:
            rep.count("solution_modify_skipped")
    if len(kinds) >= 3 and ncell > 0:
        rep.distinct.append(hashlib.sha1(json.dumps([builders[:k], plan["via_file"], plan["followups"], plan["inmem"], plan["modify"]]).encode()).hexdigest()[:12])
    rep.sample = {"db": plan["db"], "builders": builders[:k], "entity_kinds": sorted(kinds), "via_file": plan["via_file"], "chunk": plan["chunk"], "followups": plan["followups"], "inmem": plan["inmem"], "modify": plan["modify"], "dump_bytes": len(D)}
    return rep


def shrink_candidates(plan):
    b = plan["builders"]
    k = plan["checkpoint"]
    if k > 1:
        for i in range(k):
            c = dict(plan)
            c["builders"] = b[:i] + b[i + 1:]
            c["checkpoint"] = k - 1
            yield c
    for key, val in (("inmem", None), ("modify", False), ("via_file", False), ("chunk", 0), ("eintr", 0)):
        if plan[key] != val:
            c = dict(plan)
            c[key] = val
            yield c
    if len(plan["followups"]) > 1:
        for i in range(len(plan["followups"])):
            c = dict(plan)
            c["followups"] = plan["followups"][:i] + plan["followups"][i + 1:]
            yield c
