"""C13 — instance registry and the three bindings behave as one consistent API.

Histories of create/destroy/set/get/accumulate/load/run calls over several instances, issued through
randomly chosen bindings (C++, C, Fortran glue) with live, destroyed, never-issued and negative ids.
Oracle: a small executable reference model of the registry and of the settings store; after every
operation every getter of every live instance is read through all bindings and compared with the
model and with each other; after runs the string/line/table accessors are compared across bindings.
A concurrent configuration (tsan variant, seeded scheduler) runs 2-4 such histories on disjoint
instances: ids unique, every client refines its own sequential model, TSan silent."""
import hashlib, json
from common import *
from runner import Report, crash_violation

PROP = "C13"
LEVEL = "exploration"
VARIANTS = ["asan", "tsan"]
RULE = ("histories of 8-60 API operations over up to 5 instances drawn from one seed (bindings, ids incl. dead/negative/never "
        "issued, NULL/empty names, negative user numbers); every operation is followed by a getter sweep of all live instances "
        "through all bindings against the reference model. A history is non-trivial when it has >= 2 instances alive at once, "
        ">= 1 dead-id call and >= 1 successful run; distinct = distinct sequences of (operation kind, binding, id class).")
COMPONENTS = {"real": "whole IPhreeqc library built from /repo (C++ class, C binding, Fortran glue functions called from C)",
              "stub": "clock(), libc file calls, C allocation family, pthread_mutex wrappers, thread scheduler (concurrent part)",
              "not_run": "IPhreeqc_interface.F90 module (no Fortran compiler)"}
ASSUMPTIONS = ["Fortran glue functions are called from C with C strings; the F90 module itself is not compiled",
               "the reference model encodes IPhreeqc.h/IPhreeqc.hpp documentation and the defaults of the constructor"]
REACH_PROBES = ["dead_id_calls", "f_truncations", "concurrent_plans", "sweeps"]
tiers = {"quick": dict(runs=4000, budget_s=100, workers=16), "thorough": dict(runs=41110, budget_s=1500, workers=16)}

SW = ["DumpFileOn", "DumpStringOn", "ErrorFileOn", "ErrorOn", "ErrorStringOn", "LogFileOn", "LogStringOn", "OutputFileOn", "OutputStringOn"]
SELSW = ["SelectedOutputFileOn", "SelectedOutputStringOn"]
NM = ["DumpFileName", "ErrorFileName", "LogFileName", "OutputFileName"]
DEFAULT_SW = {"DumpFileOn": 0, "DumpStringOn": 0, "ErrorFileOn": 0, "ErrorOn": 1, "ErrorStringOn": 1, "LogFileOn": 0,
              "LogStringOn": 0, "OutputFileOn": 0, "OutputStringOn": 0}
BADINST = -6

RUN_INPUTS = [
    ("plain", "SOLUTION 1\n Na 1\n Cl 1\nEND\n", []),
    ("sel1", "SELECTED_OUTPUT 1\n -reset false\n -pH\nSOLUTION 1\n Ca 2\nEND\n", [(1, None)]),
    ("sel2file", "SELECTED_OUTPUT 2\n -file so2.sel\n -reset false\n -totals Na\nUSER_PUNCH 2\n -headings a b\n10 PUNCH 1.5, \"str\"\nSOLUTION 1\n Na 1\nEND\n", [(2, "so2.sel")]),
    ("sel35", "SELECTED_OUTPUT 3\n -reset false\n -pe\nSELECTED_OUTPUT 5\n -reset false\n -temperature\nUSER_PUNCH 5\n -headings x\n10 PUNCH 1e-30\nSOLUTION 1\nSOLUTION 2\n K 1\nEND\n", [(3, None), (5, None)]),
    ("err", "PRINT\n -bogus true\nSOLUTION 1\nEND\n", []),
    ("warn", "SOLUTION 1\n Na 1\nEQUILIBRIUM_PHASES 1\n Halite 0 0\nEND\n", []),
]
RUN_BY_NAME = {r[0]: r for r in RUN_INPUTS}
ID = "\x02%d\x02"


class Inst:
    def __init__(self, slot, kind):
        self.slot, self.kind = slot, kind
        self.live = True
        self.sw = dict(DEFAULT_SW)
        self.selfile, self.selstr = {1: 0}, {1: 0}
        i = ID % slot
        self.names = {"DumpFileName": "dump.%s.out" % i, "ErrorFileName": "phreeqc.%s.err" % i,
                      "LogFileName": "phreeqc.%s.log" % i, "OutputFileName": "phreeqc.%s.out" % i}
        self.selname = {1: "selected_1.%s.out" % i}
        self.cur = 1
        self.loaded = False
        self.acc = ""
        self.clear_flag = False
        self.defs = set()

    def bindings(self):
        return ["cpp", "c", "f"] if self.kind == "cpp" else ["c", "f"]


ALPHA = [
    {"op": "create", "slot": 0, "kind": "cpp"}, {"op": "create", "slot": 1, "kind": "c"},
    {"op": "destroy", "slot": 0, "how": "cpp"}, {"op": "destroy", "slot": 0, "how": "c"}, {"op": "destroy", "slot": 1, "how": "f"},
    {"op": "setsw", "fn": "OutputFileOn", "v": 1, "slot": 0, "bind": "c"}, {"op": "setsw", "fn": "DumpStringOn", "v": 1, "slot": 1, "bind": "f"},
    {"op": "setname", "fn": "LogFileName", "v": "x.log", "slot": 0, "bind": "f"}, {"op": "setcur", "v": 3, "slot": 1, "bind": "c"},
    {"op": "setsw", "fn": "ErrorOn", "v": 0, "slot": 0, "bind": "f"},
]
EXH_LEN = 4
EXH_TOTAL = sum(len(ALPHA) ** k for k in range(1, EXH_LEN + 1))


def exhaustive_plan(index):
    """the index-th operation sequence of length <= 4 over the reduced alphabet (bounded-exhaustive part of the thorough tier)"""
    k = 1
    while index >= len(ALPHA) ** k:
        index -= len(ALPHA) ** k
        k += 1
    seq = []
    for _ in range(k):
        seq.append(dict(ALPHA[index % len(ALPHA)]))
        index //= len(ALPHA)
    hist, live, ever = [], {}, set()
    for op in seq:
        s = op["slot"]
        if op["op"] == "create":
            if live.get(s) or s in ever:
                continue                   # a slot is created once; later letters use it alive or dead
            live[s] = True
            ever.add(s)
            hist.append(op)
        elif op["op"] == "destroy":
            if live.get(s):
                live[s] = False
                hist.append(op)
            elif s in ever:
                hist.append({"op": "destroy_raw", "slot": s, "bind": "f" if op["how"] == "f" else "c", "dead": True})    # double destroy
        elif s in ever:
            hist.append(dict(op, dead=not live.get(s)) if not live.get(s) else op)
    return {"prop": PROP, "clients": [hist or [dict(ALPHA[0])]], "fbuf": 24, "sweep_pct": 100, "concurrent": False, "preempt": 0, "sched_seed": 1, "exhaustive": True}


def generate(rng, tier, index):
    if tier == "thorough" and index < EXH_TOTAL:
        return exhaustive_plan(index)
    concurrent = (index % 8 == 7)
    nclients = rng.range(2, 4) if concurrent else 1
    clients = []
    for c in range(nclients):
        clients.append(gen_history(rng.fork("c%d" % c), rng.range(6, 22) if concurrent else rng.range(8, 60), c))
    plan = {"prop": PROP, "clients": clients, "fbuf": rng.choice([12, 24, 40, 400]), "sweep_pct": rng.choice([100, 100, 50, 15, 0]),
            "concurrent": concurrent, "preempt": rng.choice([3, 10, 30, 60]), "sched_seed": rng.next() >> 1}
    return plan


def gen_history(rng, n, client):
    ops = []
    slots = {}           # slot -> (kind, live)
    nextslot = client * 10
    dead = []
    for _ in range(n):
        live = [s for s, (k, l) in slots.items() if l]
        r = rng.below(100)
        if (not live and not (dead and r < 35)) or (r < 10 and len(live) < 5):
            kind = rng.choice(["cpp", "cpp", "c", "f"])
            ops.append({"op": "create", "slot": nextslot, "kind": kind})
            slots[nextslot] = (kind, True)
            nextslot += 1
            continue
        if r < 16 and live:
            s = rng.choice(live)
            kind = slots[s][0]
            how = "cpp" if kind == "cpp" and rng.chance(50) else rng.choice(["c", "f"])
            ops.append({"op": "destroy", "slot": s, "how": how})
            slots[s] = (kind, False)
            dead.append(s)
            # post-mortem: the id just destroyed is used again at once (getter, setter, second destroy), with no call in between
            if rng.chance(60):
                for _ in range(rng.range(1, 3)):
                    op = gen_call(rng) if rng.chance(60) else {"op": "destroy_raw"}
                    op.update({"slot": s, "bind": rng.choice(["c", "f"]), "dead": True, "nosweep": True})
                    ops.append(op)
            continue
        # target: mostly live, sometimes dead / raw id
        if r < 28 or not live:
            tk = rng.below(4)
            if tk == 0 and dead:
                tgt = {"slot": rng.choice(dead)}
            elif tk == 1:
                tgt = {"raw": -rng.range(1, 9)}
            elif tk == 2:
                tgt = {"raw": rng.choice([1000000, 99999, 2147483647])}
            else:
                tgt = {"raw": -1} if not dead else {"slot": rng.choice(dead)}
            bind = rng.choice(["c", "f"])
            op = gen_call(rng)
            op.update(tgt)
            op["bind"] = bind
            op["dead"] = True
            if op["op"] == "destroy_raw":
                pass
            ops.append(op)
            continue
        s = rng.choice(live)
        kind = slots[s][0]
        bind = rng.choice(["cpp", "c", "f"]) if kind == "cpp" else rng.choice(["c", "f"])
        op = gen_call(rng)
        op["slot"] = s
        op["bind"] = bind
        ops.append(op)
    return ops


def gen_call(rng):
    r = rng.below(100)
    if r < 22:
        return {"op": "setsw", "fn": rng.choice(SW + SELSW + SELSW), "v": rng.choice([0, 1, 1, 2, -1, 7])}
    if r < 36:
        v = rng.choice(["", NULLSTR, "a.out", "x y.txt", "n%d.dat" % rng.below(5), "L" * rng.choice([30, 300])])
        return {"op": "setname", "fn": rng.choice(NM + ["SelectedOutputFileName"]), "v": v}
    if r < 50:
        return {"op": "setcur", "v": rng.choice([0, 1, 2, 3, 5, 10, 77, -1, -5, 2147483647])}
    if r < 58:
        return {"op": "acc", "line": rng.choice(["SOLUTION 1", " Na 1", "END", "", "TITLE t" + "x" * rng.below(40)])}
    if r < 62:
        return {"op": "clearacc"}
    if r < 72:
        return {"op": "load", "db": rng.choice(["phreeqc.dat", "phreeqc.dat", "pitzer.dat", "missing.dat", "string:min"])}
    if r < 88:
        return {"op": "run", "entry": rng.choice(["string", "string", "file", "acc"]), "input": rng.choice(RUN_INPUTS)[0]}
    if r < 92:
        return {"op": "adderr", "which": rng.choice(["AddError", "AddWarning"]), "msg": "user message %d\n" % rng.below(9)}
    if r < 96:
        return {"op": "getvalue", "row": rng.choice([-1, 0, 1, 2, 50]), "col": rng.choice([-1, 0, 1, 3, 50]), "blen": rng.choice([1, 5, 30, 100])}
    return {"op": "destroy_raw"}


MIN_DB = None


def min_db():
    global MIN_DB
    if MIN_DB is None:
        MIN_DB = read_text(PHREEQC_DAT)
    return MIN_DB


def unopenable(m):
    return bool(m) and any(on and len(m.selname.get(n, "")) > 200 for n, on in m.selfile.items())


def tgt_str(op, insts):
    if "raw" in op:
        return "i%d" % op["raw"]
    return "s%d" % op["slot"]


def compile_client(hist, fbuf, sweep_pct=100):
    """returns (executor ops, checks) ; checks[i] describes how to judge executor op i"""
    ops, chk = [], []
    insts = {}

    def emit(op, c):
        ops.append(op)
        chk.append(c)

    emit(["fbuf", str(fbuf)], None)
    emit(["mkfile", "runfile_dummy", ""], None)

    nsweep = [0]

    def sweep(tag, force=False):
        # deterministic thinning of the sweeps (plan knob): histories with few interleaved calls are histories too
        nsweep[0] += 1
        if not force and (nsweep[0] * 37) % 100 >= sweep_pct:
            return
        for s in sorted(insts):
            m = insts[s]
            if not m.live:
                continue
            users = sorted(set(list(m.selfile) + list(m.selstr) + list(m.selname) + [m.cur] + [1, 2, 4]))
            users = [u for u in users if u >= 0][:8]
            for b in m.bindings():
                exp = {"b." + k: str(v) for k, v in m.sw.items()}
                exp.update({"n." + k: v for k, v in m.names.items()})
                exp["cur"] = str(m.cur)
                exp["b.SelectedOutputFileOn"] = str(m.selfile.get(m.cur, 0))
                exp["b.SelectedOutputStringOn"] = str(m.selstr.get(m.cur, 0))
                exp["n.SelectedOutputFileName"] = m.selname.get(m.cur, "")
                exp["id"] = ID % s
                emit(["transcript", b, "s%d" % s, "G"], ("getters", s, b, exp, tag))
                for u in users:
                    emit(call(b, "s%d" % s, "SetCurrentSelectedOutputUserNumber", u), ("ret", "0"))
                    emit(call(b, "s%d" % s, "GetSelectedOutputFileOn"), ("val", s, b, str(m.selfile.get(u, 0)), "FileOn[%d]" % u, tag))
                    emit(call(b, "s%d" % s, "GetSelectedOutputStringOn"), ("val", s, b, str(m.selstr.get(u, 0)), "StringOn[%d]" % u, tag))
                    emit(call(b, "s%d" % s, "GetSelectedOutputFileName"), ("str", s, b, m.selname.get(u, ""), "FileName[%d]" % u, tag))
                emit(call(b, "s%d" % s, "SetCurrentSelectedOutputUserNumber", m.cur), ("ret", "0"))
                if m.kind == "cpp" and b == "cpp":
                    emit(call("cpp", "s%d" % s, "GetAccumulatedLines"), ("str", s, b, m.acc, "accumulated", tag))

    def content(s, tag):
        m = insts[s]
        # GetSelectedOutputValue clears the error reporter (documented side effect of the accessor), so the
        # strings are read through every binding first and the tables in a second round
        for flags in ("SLC", "T"):
            for b in m.bindings():
                emit(["transcript", b, "s%d" % s, flags], ("content", s, b, tag + ":" + flags))

    for hi, op in enumerate(hist):
        k = op["op"]
        tag = "op%d:%s" % (hi, k)
        if k == "create":
            insts[op["slot"]] = Inst(op["slot"], op["kind"])
            emit(["create", str(op["slot"]), "sim" if op["kind"] == "cpp" else op["kind"]], ("create", op["slot"]))
            sweep(tag)
            continue
        if k == "destroy":
            m = insts[op["slot"]]
            emit(["destroy", str(op["slot"]), op["how"]], ("ret", "0"))
            m.live = False
            if not (hi + 1 < len(hist) and hist[hi + 1].get("nosweep")):
                sweep(tag)
            continue
        if "slot" in op and op["slot"] not in insts:
            continue
        dead = op.get("dead", False)
        if "slot" in op and op["slot"] in insts and not insts[op["slot"]].live:
            dead = True
        elif "slot" in op and op["slot"] in insts:
            dead = False
        elif "raw" in op:
            dead = True
        b = op["bind"]
        t = tgt_str(op, insts)
        m = None if dead else insts[op["slot"]]
        if b == "cpp" and (dead or m.kind != "cpp"):
            b = "c"
        if k == "setsw":
            fn = op["fn"]
            v = op["v"]
            emit(call(b, t, "Set" + fn, v), ("ret", str(BADINST) if dead else "0"))
            if m:
                bv = 1 if v != 0 else 0
                if fn == "SelectedOutputFileOn":
                    if m.cur >= 0:
                        m.selfile[m.cur] = bv
                elif fn == "SelectedOutputStringOn":
                    m.selstr[m.cur] = bv
                else:
                    m.sw[fn] = bv
        elif k == "setname":
            emit(call(b, t, "Set" + op["fn"], op["v"]), ("ret", str(BADINST) if dead else "0"))
            if m and op["v"] not in ("", NULLSTR):
                if op["fn"] == "SelectedOutputFileName":
                    m.selname[m.cur] = op["v"]
                else:
                    m.names[op["fn"]] = op["v"]
        elif k == "setcur":
            v = op["v"]
            emit(call(b, t, "SetCurrentSelectedOutputUserNumber", v), ("ret", str(BADINST) if dead else ("0" if v >= 0 else "-3")))
            if m and v >= 0:
                m.cur = v
        elif k == "acc":
            emit(call(b, t, "AccumulateLine", op["line"]), ("ret", str(BADINST) if dead else "0"))
            if m:
                if m.clear_flag:
                    m.acc = ""
                    m.clear_flag = False
                m.acc += op["line"] + "\n"
        elif k == "clearacc":
            emit(call(b, t, "ClearAccumulatedLines"), ("ret", str(BADINST) if dead else "0"))
            if m:
                m.acc = ""
        elif k == "load":
            db = op["db"]
            if db.startswith("string:"):
                emit(call(b, t, "LoadDatabaseString", min_db()), ("load", dead, True))
                good = True
            else:
                good = db != "missing.dat"
                path = os.path.join(DBDIR, db) if good else "missing.dat"
                emit(call(b, t, "LoadDatabase", path), ("load", dead, good))
            if m:
                m.cur = 1
                m.selfile, m.selstr = {1: 0}, {1: 0}
                m.acc, m.clear_flag = "", False
                m.loaded = good
                m.defs = set()
        elif k == "run":
            name, text, defs = RUN_BY_NAME[op["input"]]
            entry = op["entry"]
            if entry == "string":
                emit(call(b, t, "RunString", text), ("run", dead, m.loaded if m else False, name, unopenable(m)))
                if m:
                    m.acc, m.clear_flag = "", False
            elif entry == "file":
                emit(["mkfile", "in_%d.pqi" % hi, text], None)
                emit(call(b, t, "RunFile", "in_%d.pqi" % hi), ("run", dead, m.loaded if m else False, name, unopenable(m)))
                if m:
                    m.acc, m.clear_flag = "", False
            else:
                if m:
                    if m.clear_flag:
                        m.acc = ""
                        m.clear_flag = False
                    emit(call(b, t, "ClearAccumulatedLines"), ("ret", "0"))
                    m.acc = ""
                    for line in text.rstrip("\n").split("\n"):
                        emit(call(b, t, "AccumulateLine", line), ("ret", "0"))
                        m.acc += line + "\n"
                emit(call(b, t, "RunAccumulated"), ("run", dead, m.loaded if m else False, name, unopenable(m)))
                if m:
                    m.clear_flag = True
            if m and m.loaded:
                for (n, fname) in defs:
                    m.defs.add(n)
                    if fname:
                        m.selname[n] = fname
                    elif m.selname.get(n, "") == "":
                        m.selname[n] = "selected_%d.%s.out" % (n, ID % m.slot)
                for n in m.defs:
                    # every defined block has had its file name resolved by the library when it was read;
                    # blocks persist, so nothing more to model here
                    pass
            if m:
                content(op["slot"], tag)
        elif k == "adderr":
            emit(call(b, t, op["which"], op["msg"]), ("reterr", dead))
            if m:
                content(op["slot"], tag)
        elif k == "getvalue":
            emit(call(b, t, "GetSelectedOutputValue2" if b != "f" else "GetSelectedOutputValueF", op["row"], op["col"], op["blen"]),
                 ("getvalue", dead, op["blen"]))
        elif k == "destroy_raw":
            if not dead:
                continue
            emit(call(b if b != "cpp" else "c", t, "DestroyRaw"), ("ret", str(BADINST)))
        if op.get("nosweep") and hi + 1 < len(hist) and hist[hi + 1].get("nosweep"):
            continue
        sweep(tag, force=bool(op.get("nosweep")))
    return ops, chk


def sub_ids(s, ids):
    for slot, i in ids.items():
        s = s.replace(ID % slot, str(i))
    return s


def walk(rep, ops, chk, results, fbuf, cname):
    ids = {}
    last_content = {}
    allids = []
    for o in results:
        c = chk[o.idx]
        if o.exc():
            rep.viol("exception", "exception:" + ops[o.idx][0], "%s op %r raised %s" % (cname, ops[o.idx][:4], o.exc()))
            continue
        if c is None:
            continue
        kind = c[0]
        f = o.f
        if kind == "create":
            i = int(f[0])
            if i < 0 or i in allids:
                rep.viol("id_reuse", "id_reuse", "%s create returned %d, earlier ids %r" % (cname, i, allids))
            if allids and i <= max(allids):
                rep.viol("id_reuse", "id_not_increasing", "%s create returned %d after %r" % (cname, i, allids))
            ids[c[1]] = i
            allids.append(i)
        elif kind == "ret":
            if f[0] != c[1]:
                rep.viol("retcode", "retcode:" + ops[o.idx][3 if ops[o.idx][0] == "call" else 0],
                         "%s %r returned %s, model expects %s" % (cname, ops[o.idx][:6], f[0], c[1]))
        elif kind == "load":
            dead, good = c[1], c[2]
            if dead:
                if f[0] != str(BADINST):
                    rep.viol("retcode", "retcode:load_dead", "%s load on dead id returned %s" % (cname, f[0]))
            elif (f[0] == "0") != good:
                rep.viol("retcode", "retcode:load", "%s %r returned %s, expected %s" % (cname, ops[o.idx][:5], f[0], "0" if good else "non-zero"))
        elif kind == "run":
            dead, loaded, name = c[1], c[2], c[3]
            if dead:
                if f[0] != str(BADINST):
                    rep.viol("retcode", "retcode:run_dead", "%s run on dead id returned %s" % (cname, f[0]))
                rep.count("dead_id_calls")
            else:
                want_err = (not loaded) or name == "err"
                if c[4]:
                    pass    # a selected-output file sink is on under a name that cannot be opened: the engine reports an input error or not depending on the block; not modelled
                elif (f[0] != "0") != want_err:
                    rep.viol("retcode", "retcode:run", "%s run %s (db loaded=%s) returned %s" % (cname, name, loaded, f[0]))
                if f[0] == "0":
                    rep.count("successful_runs")
        elif kind == "reterr":
            if c[1] and f[0] != str(BADINST):
                rep.viol("retcode", "retcode:adderr_dead", "%s AddError on dead id returned %s" % (cname, f[0]))
        elif kind == "getvalue":
            dead, blen = c[1], c[2]
            if dead:
                if f[0] != str(BADINST):
                    rep.viol("retcode", "retcode:getvalue_dead", "%s returned %s" % (cname, f[0]))
            if len(f) < 6:
                # the call did not deliver its usual fields (it raised: the executor reports the exception text instead)
                rep.viol("exception", "exception:getvalue", "%s delivered %r" % (cname, [x[:80] for x in f]))
            elif f[5] != "#" * 8:
                rep.viol("buffer_overrun", "buffer_overrun:getvalue", "%s guard bytes after a %d-byte buffer were overwritten: %r" % (cname, blen, f[5]))
        elif kind == "getters":
            s, b, exp, tag = c[1], c[2], c[3], c[4]
            got = o.kv()
            rep.count("sweeps")
            for k, v in exp.items():
                v = sub_ids(v, ids)
                g = got.get(k)
                if g is None:
                    rep.viol("model_mismatch", "getter:%s:%s:missing" % (b, k), "%s after %s: %s %s of slot %d could not be read (transcript %r)" % (cname, tag, b, k, s, o.f[:4]))
                    continue
                if b == "f" and k.startswith("n."):
                    raw, ln = unpad_f(g)
                    eraw, eln = f_expected(v, fbuf)
                    if len(v) > fbuf:
                        rep.count("f_truncations")
                    if raw != eraw or ln != eln:
                        rep.viol("model_mismatch", "getter:f:" + k, "%s after %s: F %s of slot %d = (%r,%d), model expects (%r,%d)" % (cname, tag, k, s, raw, ln, eraw, eln))
                elif g != v:
                    rep.viol("model_mismatch", "getter:%s:%s" % (b, k), "%s after %s: %s %s of slot %d = %r, model expects %r" % (cname, tag, b, k, s, g, v))
        elif kind == "val":
            s, b, exp, what, tag = c[1:6]
            if f[0] != exp:
                rep.viol("model_mismatch", "getter:%s:%s" % (b, what.split("[")[0]), "%s after %s: %s %s of slot %d = %r, model expects %r" % (cname, tag, b, what, s, f[0], exp))
        elif kind == "str":
            s, b, exp, what, tag = c[1:6]
            exp = sub_ids(exp, ids)
            if b == "f":
                raw, ln = unpad_f(f[0])
                eraw, eln = f_expected(exp, fbuf)
                if len(exp) > fbuf:
                    rep.count("f_truncations")
                if (raw, ln) != (eraw, eln):
                    rep.viol("model_mismatch", "getter:f:" + what.split("[")[0], "%s after %s: F %s of slot %d = (%r,%d), model expects (%r,%d)" % (cname, tag, what, s, raw, ln, eraw, eln))
            elif f[0] != exp:
                rep.viol("model_mismatch", "getter:%s:%s" % (b, what.split("[")[0]), "%s after %s: %s %s of slot %d = %r, model expects %r" % (cname, tag, b, what, s, f[0], exp))
        elif kind == "content":
            s, b, tag = c[1], c[2], c[3]
            kv = o.kv()
            key = (s, tag)
            if key not in last_content:
                last_content[key] = (b, kv)
            else:
                b0, kv0 = last_content[key]
                compare_content(rep, cname, tag, s, b0, kv0, b, kv, fbuf)
    return ids, allids


def compare_content(rep, cname, tag, s, b0, kv0, b, kv, fbuf):
    """b0 is 'cpp' or 'c' (reference), b is 'c' or 'f'"""
    rep.count("content_comparisons")
    for k, v in kv.items():
        if k not in kv0:
            rep.viol("binding_mismatch", "binding:%s:missing:%s" % (b, k.split(".")[0]), "%s %s slot %d: field %s present via %s but not via %s" % (cname, tag, s, k, b, b0))
            continue
        v0 = kv0[k]
        if b != "f":
            if v != v0:
                rep.viol("binding_mismatch", "binding:%s:%s" % (b, k.split(".")[-1]), "%s %s slot %d field %s: %s gives %r, %s gives %r" % (cname, tag, s, k, b0, v0[:200], b, v[:200]))
            continue
        # Fortran glue: lines padded/truncated to fbuf with the C length reported; tables through GetSelectedOutputValueF
        if k.startswith("l.") or k.endswith(".lines") or k == "comps":
            a0, a1 = v0.split("\x1e"), v.split("\x1e")
            if v0 == "" and v == "":
                continue
            if len(a0) != len(a1):
                rep.viol("binding_mismatch", "binding:f:linecount", "%s %s slot %d %s: %d lines via %s, %d via f" % (cname, tag, s, k, len(a0), b0, len(a1)))
                continue
            for i, (x0, x1) in enumerate(zip(a0, a1)):
                raw, ln = unpad_f(x1)
                eraw, eln = f_expected(x0, fbuf)
                if len(x0) > fbuf:
                    rep.count("f_truncations")
                if (raw, ln) != (eraw, eln):
                    rep.viol("binding_mismatch", "binding:f:" + k.split(".")[-1], "%s %s slot %d %s line %d: C %r, F (%r,%d)" % (cname, tag, s, k, i - 1, x0[:120], raw[:120], ln))
                    break
        elif k.endswith(".table"):
            compare_table_f(rep, cname, tag, s, k, v0, v)
        elif k.endswith(".rows"):
            want = str(int(v0) - 1) if int(v0) > 0 else v0
            if v != want:
                rep.viol("binding_mismatch", "binding:f:rows", "%s %s slot %d %s: %s gives %s, f gives %s (documented: data rows only)" % (cname, tag, s, k, b0, v0, v))
        elif v != v0:
            rep.viol("binding_mismatch", "binding:f:" + k.split(".")[-1], "%s %s slot %d field %s: %s gives %r, f gives %r" % (cname, tag, s, k, b0, v0[:200], v[:200]))
    for k in kv0:
        if k not in kv and not (b == "f" and (k.startswith("s.") or k.endswith(".string"))):
            rep.viol("binding_mismatch", "binding:%s:missing:%s" % (b, k.split(".")[0]), "%s %s slot %d: field %s present via %s but not via %s" % (cname, tag, s, k, b0, b))


def unesc(cell):
    return cell.replace("\\t", "\t").replace("\\n", "\n").replace("\\\\", "\\")


def compare_table_f(rep, cname, tag, s, k, v0, v):
    r0 = [row.split("\t") for row in v0.split("\n") if row != ""]
    r1 = [row.split("\t") for row in v.split("\n") if row != ""]
    if len(r0) != len(r1):
        rep.viol("binding_mismatch", "binding:f:table_rows", "%s %s slot %d %s: %d rows vs %d via f" % (cname, tag, s, k, len(r0), len(r1)))
        return
    for i, (a, b) in enumerate(zip(r0, r1)):
        if len(a) != len(b):
            rep.viol("binding_mismatch", "binding:f:table_cols", "%s %s slot %d %s row %d: %d cols vs %d via f" % (cname, tag, s, k, i, len(a), len(b)))
            return
        for j, (x, y) in enumerate(zip(a, b)):
            x, y = unesc(x), unesc(y)
            rc, vt, dv, sv, ln = y.split("|", 4)[0], y.split("|")[1], y.split("|")[2], "|".join(y.split("|")[3:-1]), y.split("|")[-1]
            ok = True
            if x.startswith("!"):
                ok = rc != "0"
            elif x[0] == "E":
                ok = rc == "0" and vt == "0"
            elif x[0] == "L":
                ok = rc == "0" and vt == "3" and float.fromhex(dv) == float(int(x[1:])) and sv.rstrip() == x[1:] and int(ln) == len(x[1:])
            elif x[0] == "D":
                d = float.fromhex(x[1:])
                txt = "%23.15e" % d
                ok = rc == "0" and vt == "3" and (dv == x[1:] or float.fromhex(dv) == d) and sv == txt[:120].ljust(120) and int(ln) == len(txt)
            elif x[0] == "S":
                ok = rc == "0" and vt == "4" and sv == x[1:][:120].ljust(120) and int(ln) == len(x[1:])
            if not ok:
                rep.viol("binding_mismatch", "binding:f:table_cell", "%s %s slot %d %s cell (%d,%d): C++/C gives %r, F gives %r" % (cname, tag, s, k, i, j, x, y))
                return


def check_plan(ctx, plan):
    rep = Report()
    fbuf = plan["fbuf"]
    compiled = [compile_client(h, fbuf, plan.get("sweep_pct", 100)) for h in plan["clients"]]
    # destroy_id pseudo-op: raw ids through C/F Destroy; the executor has no such op, so use the 'call' form
    clients = [ops for ops, chk in compiled]
    conc = plan.get("concurrent") and len(clients) > 1
    variant = "tsan" if conc else "asan"
    res = ctx.execute(variant, clients, preempt=plan["preempt"] if conc else 0, max_steps=3000000, seed=plan["sched_seed"], timeout=300)
    if crash_violation(rep, res, "C13 history"):
        return rep
    allids = []
    for ci, (ops, chk) in enumerate(compiled):
        ids, a = walk(rep, ops, chk, res.client(ci), fbuf, "client %d" % ci)
        allids += a
    if len(set(allids)) != len(allids):
        rep.viol("id_reuse", "id_duplicate_across_clients", "ids handed out in one run are not unique: %r" % allids)
    if conc:
        rep.count("concurrent_plans")
        rep.hashes.append(res.done.get("hash"))
        if int(res.done.get("tsan", 0)) > 0:
            rep.viol("tsan", "tsan:" + tsan_key(ctx, variant), "ThreadSanitizer reported %s issue(s):\n%s" % (res.done["tsan"], ctx.executor(variant).stderr_tail(3000)))
        if int(res.done.get("budget", 0)):
            rep.inconclusive += 1
    # distinct / non-trivial
    for h in plan["clients"]:
        kinds = []
        live_now, max_live, dead_calls, runs = 0, 0, 0, 0
        for op in h:
            kinds.append("%s/%s/%s" % (op["op"], op.get("bind", op.get("kind", op.get("how", ""))), "d" if op.get("dead") or "raw" in op else "l"))
            if op["op"] == "create":
                live_now += 1
                max_live = max(max_live, live_now)
            elif op["op"] == "destroy":
                live_now -= 1
            if op.get("dead") or "raw" in op:
                dead_calls += 1
            if op["op"] == "run":
                runs += 1
        rep.count("dead_id_calls", dead_calls)
        rep.count("hl_ops", len(h))
        if max_live >= 2 and dead_calls >= 1 and runs >= 1:
            rep.distinct.append(hashlib.sha1("|".join(kinds).encode()).hexdigest()[:12])
    if plan.get("exhaustive"):
        rep.count("exhaustive_sequences")
    rep.sample = {"concurrent": bool(conc), "fbuf": fbuf, "history_client0": plan["clients"][0][:12], "executor_ops": sum(len(c) for c in clients)}
    return rep


def tsan_key(ctx, variant):
    import re
    t = ctx.executor(variant).stderr_tail(6000)
    m = re.search(r"WARNING: ThreadSanitizer: ([^\n(]+)", t)
    kind = m.group(1).strip() if m else "report"
    fm = re.search(r"#\d+ (\S+) (/repo/[^\s:]+)", t)
    return kind + "@" + ((os.path.basename(fm.group(2)) + ":" + fm.group(1)) if fm else "?")


def shrink_candidates(plan):
    # drop whole clients, then chunks of each client's history
    cl = plan["clients"]
    if len(cl) > 1:
        for i in range(len(cl)):
            c = dict(plan)
            c["clients"] = cl[:i] + cl[i + 1:]
            if len(c["clients"]) == 1:
                c["concurrent"] = False
            yield c
    for ci, h in enumerate(cl):
        n = len(h)
        size = max(1, n // 2)
        while size >= 1:
            for i in range(0, n, size):
                nh = h[:i] + h[i + size:]
                if not nh:
                    continue
                c = dict(plan)
                c["clients"] = cl[:ci] + [nh] + cl[ci + 1:]
                yield c
            if size == 1:
                break
            size //= 2
