"""C14 — numbered reactants behave as a keyed store under COPY / DELETE / SAVE / USE / MODIFY.

Reference model: store (kind, n) -> content id, for the 11 entity maps.  A history is 5-40 operations, one per
simulation, several simulations per API call: definitions with single numbers and ranges, redefinition, SAVE after a
calculation, COPY of one kind or of a whole cell to a number or a range, DELETE of kinds / numbers / ranges / cells /
everything, *_MODIFY of one named quantity, MIX, RUN_CELLS.  After every call DUMP -all is parsed by the independent
RAW reader and compared with the model: the key set must equal the model's; entries a step did not name keep their
content id; COPY makes content-identical entries; a range holds one content; DELETE removes exactly the named keys;
*_MODIFY changes the named entry only.  The component list must contain every element of every stored reactant.
A second instance replays the history with RUN_CELLS n replaced by the explicit USE of every reactant numbered n
followed by SAVE to n; both instances must end with numerically equal content (relative 1e-7, the solver tolerance class used for the other equivalences)."""
import hashlib, json, re
from common import *
from runner import Report, crash_violation
import raw

PROP = "C14"
LEVEL = "exploration"
VARIANTS = ["asan"]
RULE = ("histories of 5-40 store operations over the 11 entity kinds and numbers 1..12 (ranges n-m up to 4 wide, undefined sources, src == dst, redefinition), "
        "1-4 simulations per API call, checked after every call against the reference map. Non-trivial = >= 3 kinds and >= 1 range operation; "
        "distinct = distinct operation-kind sequences.")
COMPONENTS = {"real": "whole IPhreeqc library from /repo's working tree (ASan+UBSan)", "stub": "clock() frozen (no fault or schedule dimension: see DESIGN, honest note on C14)"}
ASSUMPTIONS = ["content id = RAW block without header, comments and 'workspace variables' sections",
               "the model knows the engine's intra-simulation order only to the extent that one operation is one simulation"]
REACH_PROBES = ["ops", "calls_checked", "range_ops", "copy_ops", "delete_ops", "modify_ops", "save_ops", "run_cells_ops", "explicit_use_save_compared", "components_checked"]
tiers = {"quick": dict(runs=10000, budget_s=150, workers=16), "thorough": dict(runs=100000, budget_s=1700, workers=16)}

KINDS = ["solution", "equilibrium_phases", "exchange", "surface", "solid_solutions", "gas_phase", "kinetics", "mix", "reaction", "reaction_temperature", "reaction_pressure"]
CELL_KINDS = ["solution", "equilibrium_phases", "exchange", "surface", "solid_solutions", "gas_phase", "kinetics", "mix", "reaction", "reaction_temperature", "reaction_pressure"]
REACTANTS = ["equilibrium_phases", "exchange", "surface", "solid_solutions", "gas_phase", "kinetics"]
SAVABLE = ["equilibrium_phases", "exchange", "surface", "solid_solutions", "gas_phase"]      # SAVE kinetics is not accepted by the engine
KW = {"solution": "SOLUTION", "equilibrium_phases": "EQUILIBRIUM_PHASES", "exchange": "EXCHANGE", "surface": "SURFACE", "solid_solutions": "SOLID_SOLUTIONS", "gas_phase": "GAS_PHASE",
      "kinetics": "KINETICS", "mix": "MIX", "reaction": "REACTION", "reaction_temperature": "REACTION_TEMPERATURE", "reaction_pressure": "REACTION_PRESSURE"}
PROLOGUE = "RATES\n krate\n -start\n10 SAVE parm(1) * TIME\n -end\nEND\n"
ELEMENTS = {"solution": ["Na", "Cl", "Ca"], "equilibrium_phases": ["Ca", "C", "S"], "exchange": ["Ca", "Na"], "solid_solutions": ["Ca", "Sr", "C"], "gas_phase": ["C", "N"], "kinetics": ["Na", "Cl"], "reaction": ["Na", "Cl"]}


def rng_txt(n, m):
    return "%d-%d" % (n, m) if m > n else "%d" % n


def def_text(kind, n, m, v):
    r = rng_txt(n, m)
    if kind == "solution":
        return "SOLUTION %s\n pH 7\n Na %d\n Cl %d\n Ca 0.%d\n" % (r, 1 + v, 1 + v, v)
    if kind == "equilibrium_phases":
        return "EQUILIBRIUM_PHASES %s\n Calcite 0 %d\n Gypsum 0 0.%d\n" % (r, v, v)
    if kind == "exchange":
        return "EXCHANGE %s\n CaX2 0.0%d\n NaX 0.00%d\n" % (r, v, v)
    if kind == "surface":
        return "SURFACE %s\n Hfo_wOH 0.00%d 600 1\n" % (r, v)
    if kind == "solid_solutions":
        return "SOLID_SOLUTIONS %s\n CaSr\n -comp Calcite 0.0%d\n -comp Strontianite 0.00%d\n" % (r, v, v)
    if kind == "gas_phase":
        return "GAS_PHASE %s\n -fixed_pressure\n -pressure 1\n -volume %d\n CO2(g) 0.0%d\n N2(g) 0.9\n" % (r, v, v)
    if kind == "kinetics":
        return "KINETICS %s\n krate\n -formula NaCl 1\n -m0 %d\n -parms 1e-9\n -steps 10\n" % (r, v)
    if kind == "mix":
        return "MIX %d\n 1 0.%d\n 2 0.5\n" % (n, v)
    if kind == "reaction":
        return "REACTION %s\n NaCl 1\n %d mmol\n" % (r, v)
    if kind == "reaction_temperature":
        return "REACTION_TEMPERATURE %s\n %d\n" % (r, 20 + v)
    return "REACTION_PRESSURE %s\n %d\n" % (r, 1 + v)


def generate(rng, tier, index):
    ops = []
    keys = set()              # the generator's own picture, only to draw meaningful operations
    nops = rng.range(5, 40)
    ops.append({"op": "def", "kind": "solution", "n": 1, "m": 2, "v": rng.range(1, 9)})
    keys |= {("solution", 1), ("solution", 2)}
    for _ in range(nops):
        r = rng.below(100)
        if r < 34 or len(keys) < 4:
            kind = rng.choice(KINDS)
            n = rng.range(1, 12) if (kind != "mix" or rng.chance(35)) else rng.range(50, 55)      # a MIX n of a cell number replaces SOLUTION n in RUN_CELLS n
            m = n + (rng.range(1, 3) if (rng.chance(35) and kind != "mix") else 0)
            ops.append({"op": "def", "kind": kind, "n": n, "m": m, "v": rng.range(1, 9)})
            keys |= {(kind, i) for i in range(n, m + 1)}
        elif r < 50:
            kind = rng.choice(KINDS + ["cell", "cell"])
            have = sorted(set(n for k, n in keys if (kind == "cell" or k == kind)))
            src = rng.choice(have) if (have and rng.chance(85)) else rng.range(1, 30)
            dst = src if rng.chance(8) else rng.range(1, 14)
            end = dst + (rng.range(1, 3) if rng.chance(35) else 0)
            ops.append({"op": "copy", "kind": kind, "src": src, "dst": dst, "end": end})
            for k in (CELL_KINDS if kind == "cell" else [kind]):
                if (k, src) in keys:
                    keys |= {(k, i) for i in range(dst, end + 1)}
        elif r < 62:
            what = rng.choice(["kind", "kind", "cells", "all", "kind_all"])
            kind = rng.choice(KINDS)
            n = rng.range(1, 12)
            m = n + (rng.range(1, 3) if rng.chance(40) else 0)
            ops.append({"op": "delete", "what": what, "kind": kind, "n": n, "m": m})
            if what == "kind":
                keys -= {(kind, i) for i in range(n, m + 1)}
            elif what == "cells":
                keys -= {(k, i) for k in CELL_KINDS for i in range(n, m + 1)}
            elif what == "all":
                keys = set()
            else:
                keys = {(k, i) for (k, i) in keys if k != kind}
        elif r < 72:
            cands = sorted(k for k in keys if k[0] in ("solution", "equilibrium_phases", "kinetics", "reaction", "exchange"))
            if cands:
                kind, n = rng.choice(cands)
                ops.append({"op": "modify", "kind": kind, "n": n, "v": rng.range(1, 9), "newel": rng.chance(40)})
        elif r < 84:
            sols = sorted(n for k, n in keys if k == "solution" and n < 50)
            if sols:
                a = rng.choice(sols)
                kinds = [k for k in SAVABLE if (k, a) in keys and rng.chance(60)][:2]
                n = rng.range(1, 12)
                m = n + (rng.range(1, 3) if rng.chance(40) else 0)
                ops.append({"op": "save", "a": a, "kinds": kinds, "n": n, "m": m, "sol": rng.range(1, 12)})
                keys |= {(k, i) for k in kinds for i in range(n, m + 1)} | {("solution", ops[-1]["sol"])}
        elif r < 92:
            sols = sorted(n for k, n in keys if k == "solution" and n < 50)
            if sols:
                ops.append({"op": "run_cells", "n": rng.choice(sols)})
                if rng.chance(40):
                    ops[-1]["n2"] = rng.choice(sols)       # several cells in one RUN_CELLS: they run in ascending order
        else:
            sols = sorted(n for k, n in keys if k == "solution" and n < 50)
            if len(sols) >= 2:
                a, b = rng.choice(sols), rng.choice(sols)
                ops.append({"op": "mixsave", "k": rng.range(56, 59), "a": a, "b": b, "c": rng.range(1, 12)})
                keys |= {("mix", ops[-1]["k"]), ("solution", ops[-1]["c"])}
    # grouping into API calls
    calls, i = [], 0
    while i < len(ops):
        g = rng.range(1, 4)
        calls.append(list(range(i, min(len(ops), i + g))))
        i += g
    return {"prop": PROP, "ops": ops, "calls": calls, "explicit": rng.chance(30)}


def op_text(op, store, explicit=False):
    """input text of one operation (one simulation); `store`: model store before the operation (dict key -> id)"""
    k = op["op"]
    if k == "def":
        return def_text(op["kind"], op["n"], op["m"], op["v"]) + "END\n"
    if k == "copy":
        return "COPY %s %d %s\nEND\n" % (op["kind"], op["src"], rng_txt(op["dst"], op["end"]))
    if k == "delete":
        w = op["what"]
        if w == "all":
            return "DELETE\n -all\nEND\n"
        if w == "cells":
            return "DELETE\n -cells %s\nEND\n" % rng_txt(op["n"], op["m"])
        if w == "kind_all":
            return "DELETE\n -%s\nEND\n" % op["kind"]
        return "DELETE\n -%s %s\nEND\n" % (op["kind"], rng_txt(op["n"], op["m"]))
    if k == "modify":
        kind, n, v = op["kind"], op["n"], op["v"]
        if kind == "solution":
            return "SOLUTION_MODIFY %d\n -totals\n  Na 0.00%d5\n  Cl 0.00%d5\nEND\n" % (n, v, v)
        if kind == "equilibrium_phases":
            return "EQUILIBRIUM_PHASES_MODIFY %d\n -component Calcite\n  -moles %d.5\nEND\n" % (n, v)
        if kind == "kinetics":
            # newel: the modification brings an element (Sr, S / K, Br) that no other reactant of the histories holds
            return "KINETICS_MODIFY %d\n -component krate\n  -m %d.25\n%sEND\n" % (n, v, "  -namecoef\n   NaCl 1\n   SrSO4 0.5\n" if op.get("newel") else "")
        if kind == "reaction":
            return "REACTION_MODIFY %d\n -reactant_list\n  NaCl %d.5\n%sEND\n" % (n, v, "  KBr 0.25\n" if op.get("newel") else "")
        return "EXCHANGE_MODIFY %d\n -component CaX2\n  -totals\n   Ca 0.0%d5\n   X 0.%d\nEND\n" % (n, v, v)
    if k == "save":
        t = "USE solution %d\n" % op["a"]
        for kd in op["kinds"]:
            t += "USE %s %d\n" % (kd, op["a"])
        for kd in op["kinds"]:
            t += "SAVE %s %s\n" % (kd, rng_txt(op["n"], op["m"]))
        return t + "SAVE solution %d\nEND\n" % op["sol"]
    if k == "run_cells":
        cells = sorted(set([op["n"]] + ([op["n2"]] if "n2" in op else [])))
        if not explicit:
            return "RUN_CELLS\n -cells %s\n -time_step 10\nEND\n" % " ".join(str(c) for c in cells)
        t = ""
        for n in cells:
            # a MIX of the cell's own number takes the place of its solution
            t += ("USE mix %d\n" if ("mix", n) in store else "USE solution %d\n") % n
            for kd in REACTANTS + ["reaction", "reaction_temperature", "reaction_pressure"]:
                if (kd, n) in store:
                    t += "USE %s %d\n" % (kd, n)
            for kd in ["solution"] + SAVABLE:
                if (kd, n) in store:
                    t += "SAVE %s %d\n" % (kd, n)
            t += "END\n"
        return t
    if k == "mixsave":
        return "MIX %d\n %d 0.4\n %d 0.6\nSAVE solution %d\nEND\n" % (op["k"], op["a"], op["b"], op["c"])
    return "END\n"


class Model:
    def __init__(self):
        self.store = {}
        self.fresh = 0

    def new(self, tag):
        self.fresh += 1
        return "%s#%d" % (tag, self.fresh)

    def apply(self, op):
        """returns (touched keys whose content is not predicted, keys that must equal another key's previous content, runnable)"""
        s = self.store
        k = op["op"]
        touched, equal = set(), {}
        if k == "def" and op["kind"] == "mix" and (("solution", 1) not in s or ("solution", 2) not in s):
            return None          # defining a MIX runs the mix: its solutions must exist
        if k == "def":
            cid = "def:%s:%d" % (op["kind"], op["v"])     # content is a function of kind and variant
            if op["kind"] == "solution":
                # a solution's stored content is the result of its initial calculation: the same text defined by two different operations agrees
                # to solver tolerance only (starting estimates differ), so only the numbers of one definition (a range) must be identical copies
                cid = self.new(cid)
            for i in range(op["n"], op["m"] + 1):
                s[(op["kind"], i)] = cid
                touched.add((op["kind"], i))
        elif k == "copy":
            kinds = CELL_KINDS if op["kind"] == "cell" else [op["kind"]]
            for kd in kinds:
                if (kd, op["src"]) in s:
                    for i in range(op["dst"], op["end"] + 1):
                        if i != op["src"]:
                            s[(kd, i)] = s[(kd, op["src"])]
                            equal[(kd, i)] = (kd, op["src"])
        elif k == "delete":
            w = op["what"]
            if w == "all":
                s.clear()
            elif w == "cells":
                for key in [key for key in s if op["n"] <= key[1] <= op["m"]]:
                    del s[key]
            elif w == "kind_all":
                for key in [key for key in s if key[0] == op["kind"]]:
                    del s[key]
            else:
                for i in range(op["n"], op["m"] + 1):
                    s.pop((op["kind"], i), None)
        elif k == "modify":
            key = (op["kind"], op["n"])
            if key in s:
                s[key] = "mod(%s,%d%s)" % (s[key], op["v"], "+" if op.get("newel") and op["kind"] in ("kinetics", "reaction") else "")      # a function of the previous content and the variant
                touched.add(key)
        elif k == "save":
            if ("solution", op["a"]) not in s or any((kd, op["a"]) not in s for kd in op["kinds"]) or not op["kinds"]:
                return None          # without a reactant there is no calculation and nothing is saved: not generated
            for kd in op["kinds"]:
                cid = self.new("save")
                for i in range(op["n"], op["m"] + 1):
                    s[(kd, i)] = cid
                    touched.add((kd, i))
            s[("solution", op["sol"])] = self.new("save")
            touched.add(("solution", op["sol"]))
        elif k == "run_cells":
            cells = sorted(set([op["n"]] + ([op["n2"]] if "n2" in op else [])))
            if any(("solution", n) not in s for n in cells):
                return None
            for n in cells:
                for kd in ["solution"] + REACTANTS:
                    if (kd, n) in s:
                        s[(kd, n)] = self.new("run")
                        touched.add((kd, n))
        elif k == "mixsave":
            if ("solution", op["a"]) not in s or ("solution", op["b"]) not in s:
                return None
            s[("mix", op["k"])] = self.new("mix")
            s[("solution", op["c"])] = self.new("mix")
            touched |= {("mix", op["k"]), ("solution", op["c"])}
        return touched, equal


def build_calls(plan, explicit):
    """-> list of (text, [op indices actually emitted]) per API call, and the model trace"""
    model = Model()
    out = []
    for grp in plan["calls"]:
        text, emitted = "", []
        for i in grp:
            op = plan["ops"][i]
            before = dict(model.store)
            r = model.apply(op)
            if r is None:
                model.store = before
                continue
            text += op_text(op, before, explicit)
            emitted.append((i, r, before, dict(model.store)))
        if text:
            out.append((text, emitted))
    return out


DERIVED = re.compile(r"^\s*-(density|viscosity|viscos_0|soln_vol)\b.*$", re.M)


ACTIV = re.compile(r"^  -activities\s*\n(?:    .*\n)*", re.M)


def numeric_equal(a, b, tol=1e-7):
    # density, viscosity and solution volume are derived from the composition when the solution is saved
    # -activities are the starting guesses kept for the next calculation (arbitrary for redox states that are absent)
    a, b = ACTIV.sub("", a + "\n"), ACTIV.sub("", b + "\n")
    ta, tb = DERIVED.sub("", a).split(), DERIVED.sub("", b).split()
    if len(ta) != len(tb):
        return False
    for x, y in zip(ta, tb):
        if x == y:
            continue
        try:
            fx, fy = float(x), float(y)
        except ValueError:
            return False
        if abs(fx - fy) > tol * max(abs(fx), abs(fy)) and abs(fx - fy) > 1e-14:
            return False
    return True


def check_plan(ctx, plan):
    rep = Report()
    calls = build_calls(plan, False)
    head = [["create", "1", "sim"], call("cpp", "s1", "SetDumpStringOn", 1), call("cpp", "s1", "LoadDatabase", PHREEQC_DAT), call("cpp", "s1", "RunString", PROLOGUE)]
    ops = list(head)
    for text, emitted in calls:
        ops += [call("cpp", "s1", "RunString", text), call("cpp", "s1", "GetErrorString"), call("cpp", "s1", "RunString", "DUMP\n -all\nEND\n"), call("cpp", "s1", "GetDumpString"), ["transcript", "cpp", "s1", "C"]]
    res = ctx.execute("asan", [ops], timeout=120)
    if crash_violation(rep, res, "C14 history"):
        return rep
    R = res.client(0)
    prev = {}
    kinds_seen, nrange = set(), 0
    final_dump = ""
    for ci, (text, emitted) in enumerate(calls):
        base = len(head) + 5 * ci
        ret, err, dump = R[base].f[0], R[base + 1].f[0], R[base + 3].f[0]
        what = "call %d (%s)" % (ci, " ; ".join(describe(plan["ops"][i]) for i, _, _, _ in emitted))
        if ret != "0" and any(plan["ops"][i]["op"] in ("save", "run_cells", "mixsave") or plan["ops"][i].get("kind") in ("solution", "mix") for i, _, _, _ in emitted):
            # a calculation that does not converge is a numerical failure of that step, not a store defect: the history ends here
            rep.count("calls_with_calculation_errors")
            rep.inconclusive += 1
            break
        if ret != "0":
            rep.count("calls_with_errors")
            rep.viol("error", "C14:operation_error:" + plan["ops"][emitted[0][0]]["op"], "%s returned %s: %s\ninput:\n%s" % (what, ret, err[:300], text[:400]))
            break
        final_dump = dump
        ents, _ = raw.entities(dump)
        got = {(e.kind, e.n): e.content_id() for e in ents if e.n >= 0}
        want = emitted[-1][3]
        rep.count("calls_checked")
        # key set
        if set(got) != set(want):
            missing, extra = sorted(set(want) - set(got)), sorted(set(got) - set(want))
            rep.viol("keys", "C14:keyset:" + ("missing" if missing else "extra") + ":" + plan["ops"][emitted[-1][0]]["op"], "%s: entries missing %r, unexpected %r" % (what, missing[:8], extra[:8]))
            break
        # content relations over the call: fold the per-operation expectations
        last_writer = {}
        for i, (touched, equal), before, after in emitted:
            for key in touched:
                last_writer[key] = plan["ops"][i]["op"]
            for key in equal:
                last_writer[key] = "copy"
        for i, (touched, equal), before, after in emitted:
            op = plan["ops"][i]
            rep.count("ops")
            kinds_seen.add(op.get("kind", op["op"]))
            if op.get("m", 0) > op.get("n", 0) or op.get("end", 0) > op.get("dst", 0):
                nrange += 1
                rep.count("range_ops")
            rep.count({"copy": "copy_ops", "delete": "delete_ops", "modify": "modify_ops", "save": "save_ops", "run_cells": "run_cells_ops"}.get(op["op"], "other_ops"))
        # expected partition of keys by symbolic id: keys with the same symbolic id must have the same observed content, and a key whose symbolic
        # id is unchanged since the previous call must keep its observed content
        by_sym = {}
        for key, sym in want.items():
            by_sym.setdefault(sym, []).append(key)
        for sym, keys in by_sym.items():
            kinds = set(k for k, n in keys)
            for kd in kinds:
                ks = [key for key in keys if key[0] == kd]
                c0 = got[ks[0]]
                for key in ks[1:]:
                    if got[key] != c0:
                        a = [e for e in ents if (e.kind, e.n) == ks[0]][0]
                        b = [e for e in ents if (e.kind, e.n) == key][0]
                        rep.viol("content", "C14:copies_differ:" + kd, "%s: %s %d and %s %d must hold the same content (same origin) but differ: %s" % (what, kd, ks[0][1], kd, key[1], first_diff("\n".join(a.content_lines()), "\n".join(b.content_lines()))))
                        break
        for key, sym in want.items():
            if key in prev and prev[key][0] == sym and prev[key][1] != got[key]:
                rep.viol("content", "C14:untouched_changed:" + key[0], "%s: %s %d was not named by any operation of the call but its content changed" % (what, key[0], key[1]))
                break
            if key in prev and prev[key][0].split("#")[0] != sym.split("#")[0] and last_writer.get(key) == "def" and prev[key][0].startswith("def:") and prev[key][1] == got[key]:
                rep.viol("content", "C14:write_lost:" + key[0], "%s: %s %d was redefined with other values but its content is unchanged" % (what, key[0], key[1]))
                break
        # a *_MODIFY that is the last writer of its entry: the named quantity reads back as written
        for i, (touched, equal), before, after in emitted:
            op = plan["ops"][i]
            if op["op"] != "modify" or last_writer.get((op["kind"], op["n"])) != "modify" or after.get((op["kind"], op["n"])) != want.get((op["kind"], op["n"])):
                continue
            ent = [e for e in ents if (e.kind, e.n) == (op["kind"], op["n"])]
            if not ent:
                continue
            body = "\n".join(ent[0].content_lines())
            pat = {"solution": (r"^\s+Na\s+(\S+)", float("0.00%d5" % op["v"])), "equilibrium_phases": (r"-component\s+Calcite\n(?:.*\n)*?\s+-moles\s+(\S+)", op["v"] + 0.5),
                   "kinetics": (r"^\s+-m\s+(\S+)", op["v"] + 0.25)}.get(op["kind"])
            if pat:
                m = re.search(pat[0], body, re.M)
                if not m or abs(float(m.group(1)) - pat[1]) > 1e-12 * max(1.0, abs(pat[1])):
                    rep.viol("content", "C14:modify_not_applied:" + op["kind"], "%s: %s_MODIFY %d wrote %r but the entry reads %r" % (what, KW[op["kind"]], op["n"], pat[1], m.group(1) if m else None))
                    break
        prev = {key: (want[key], got[key]) for key in want}
        # component list
        comps = R[base + 4].kv().get("comps", "").split("\x1e")
        need = set()
        for (kd, n) in want:
            need |= set(ELEMENTS.get(kd, []))
        if ("solid_solutions" not in [k for k, n in want]):
            need.discard("Sr")
        # elements that the engine's own dump shows in a REACTION reactant list or a KINETICS formula (brought in by *_MODIFY)
        for e in ents:
            if e.n < 0:
                continue
            body = "\n".join(e.content_lines())
            if e.kind == "reaction" and re.search(r"^\s+KBr\s+[0-9.]*[1-9]", body, re.M):
                need |= {"K", "Br"}
                rep.count("components_new_element_entries")
            if e.kind == "kinetics" and re.search(r"^\s+SrSO4\s+[0-9.]*[1-9]", body, re.M):
                need |= {"Sr", "S"}
                rep.count("components_new_element_entries")
        rep.count("components_checked")
        miss = sorted(e for e in need if e not in comps)
        if miss:
            rep.viol("components", "C14:components_missing", "%s: elements %r occur in stored reactants but not in the component list %r" % (what, miss, comps))
            break
        if rep.violations:
            break
    # ---- RUN_CELLS vs explicit USE ... SAVE --------------------------------------------------------------------
    def cells_have_reactants():
        for text, emitted in calls:
            for i, r, before, after in emitted:
                o = plan["ops"][i]
                if o["op"] == "run_cells" and any(not any((kd, c) in before for kd in REACTANTS + ["reaction", "mix"]) for c in set([o["n"]] + ([o["n2"]] if "n2" in o else []))):
                    return False       # RUN_CELLS speciates a lone solution; 'USE solution n / SAVE solution n' alone calculates nothing
        return True

    if plan["explicit"] and not rep.violations and any(o["op"] == "run_cells" for o in plan["ops"]) and cells_have_reactants():
        calls2 = build_calls(plan, True)
        ops2 = list(head)
        for text, emitted in calls2:
            ops2.append(call("cpp", "s1", "RunString", text))
        ops2 += [call("cpp", "s1", "RunString", "DUMP\n -all\nEND\n"), call("cpp", "s1", "GetDumpString")]
        r2 = ctx.execute("asan", [ops2], timeout=120)
        if crash_violation(rep, r2, "C14 explicit USE/SAVE replay"):
            return rep
        Q = r2.client(0)
        if all(Q[len(head) + i].f[0] == "0" for i in range(len(calls2))):
            e1 = {(e.kind, e.n): e for e in raw.entities(final_dump)[0] if e.n >= 0}
            e2 = {(e.kind, e.n): e for e in raw.entities(Q[-1].f[0])[0] if e.n >= 0}
            rep.count("explicit_use_save_compared")
            if set(e1) != set(e2):
                rep.viol("run_cells", "C14:run_cells_vs_use_save:keys", "RUN_CELLS history ends with keys %r, explicit USE/SAVE history with %r" % (sorted(set(e1) - set(e2)), sorted(set(e2) - set(e1))))
            else:
                for key in sorted(e1):
                    a, b = "\n".join(e1[key].content_lines()), "\n".join(e2[key].content_lines())
                    if a != b and not numeric_equal(a, b):
                        rep.viol("run_cells", "C14:run_cells_vs_use_save:" + key[0], "%s %d differs between RUN_CELLS and the explicit USE ... SAVE of every reactant of that number: %s" % (key[0], key[1], first_diff(a, b)))
                        break
        else:
            rep.count("explicit_replay_errors")
    if len(kinds_seen) >= 3 and nrange >= 1:
        rep.distinct.append(hashlib.sha1("|".join(describe(o).split(" ")[0] + o.get("kind", "") for o in plan["ops"]).encode()).hexdigest()[:12])
    rep.sample = {"ops": [describe(o) for o in plan["ops"][:14]], "calls": len(calls), "explicit_replay": plan["explicit"]}
    return rep


def same_def(plan, sym_a, sym_b):
    """a modification that writes the value the entry already holds leaves the content as it is"""
    ma, mb = re.search(r",(\d+)\)$", sym_a), re.search(r",(\d+)\)$", sym_b)
    return bool(ma and mb and ma.group(1) == mb.group(1))


def describe(op):
    k = op["op"]
    if k == "def":
        return "define %s %s v%d" % (op["kind"], rng_txt(op["n"], op["m"]), op["v"])
    if k == "copy":
        return "copy %s %d -> %s" % (op["kind"], op["src"], rng_txt(op["dst"], op["end"]))
    if k == "delete":
        return "delete %s %s %s" % (op["what"], op["kind"], rng_txt(op["n"], op["m"]))
    if k == "modify":
        return "modify %s %d v%d%s" % (op["kind"], op["n"], op["v"], " +new element" if op.get("newel") else "")
    if k == "save":
        return "save %s of cell %d -> %s (+solution %d)" % (",".join(op["kinds"]) or "-", op["a"], rng_txt(op["n"], op["m"]), op["sol"])
    if k == "run_cells":
        return "run_cells %d%s" % (op["n"], (" %d" % op["n2"]) if "n2" in op else "")
    return "mix %d of %d,%d -> solution %d" % (op["k"], op["a"], op["b"], op["c"])


def shrink_candidates(plan):
    ops = plan["ops"]
    n = len(ops)
    size = max(1, n // 2)
    while size >= 1:
        for i in range(0, n, size):
            nops = ops[:i] + ops[i + size:]
            if not nops:
                continue
            yield dict(plan, ops=nops, calls=[[j] for j in range(len(nops))])
        if size == 1:
            break
        size //= 2
    if plan["explicit"]:
        yield dict(plan, explicit=False)
