"""Workload material and helpers shared by the harnesses."""
import os, re, sys

sys.path.insert(0, os.path.join(os.path.dirname(os.path.dirname(os.path.abspath(__file__))), "driver"))
from simlib import read_text, call, REPO, VERIF, NULLSTR

EXDIR = os.path.join(REPO, "phreeqc3-examples")
DBDIR = os.path.join(REPO, "database")
PHREEQC_DAT = os.path.join(DBDIR, "phreeqc.dat")

# name -> (database, include files to materialise in the sandbox, cost class)
EXAMPLES = {}
for _n in ("ex1 ex2 ex2b ex3 ex4 ex5 ex6 ex7 ex8 ex9 ex10 ex11 ex12 ex12a ex12b ex13a ex13ac ex13b ex13c ex14 "
           "ex15 ex15a ex15b ex16 ex17 ex17b ex18 ex19 ex19b ex20a ex21 ex22").split():
    if _n.startswith("ex15"):
        _db = os.path.join(EXDIR, "ex15.dat")
    elif _n.startswith("ex17"):
        _db = os.path.join(DBDIR, "pitzer.dat")
    elif _n.startswith("ex20"):
        _db = os.path.join(DBDIR, "iso.dat")
    else:
        _db = PHREEQC_DAT
    _inc = {"ex8": ["Zn1e_7", "Zn1e_4"], "ex21": ["radial"]}.get(_n, [])
    EXAMPLES[_n] = (_db, _inc)

FAST_EXAMPLES = [n for n in EXAMPLES if n not in ("ex15", "ex15a", "ex15b", "ex11", "ex12", "ex12a", "ex12b", "ex21")]
MEDIUM_EXAMPLES = [n for n in EXAMPLES if n not in ("ex15", "ex15a", "ex15b")]

_text_cache = {}


def example_text(name):
    if name not in _text_cache:
        _text_cache[name] = read_text(os.path.join(EXDIR, name))
    return _text_cache[name]


def corpus_text(name):
    """corpus item: 'exN' (shipped example) or a file under /verif/corpus"""
    if name in EXAMPLES:
        return example_text(name)
    key = "corpus:" + name
    if key not in _text_cache:
        _text_cache[key] = read_text(os.path.join(VERIF, "corpus", name))
    return _text_cache[key]


def corpus_db(name):
    if name in EXAMPLES:
        return EXAMPLES[name][0]
    txt = corpus_text(name)
    m = re.match(r"#\s*db:\s*(\S+)", txt)
    if m:
        return os.path.join(DBDIR, m.group(1))
    return PHREEQC_DAT


def include_ops(name):
    ops = []
    if name in EXAMPLES:
        for inc in EXAMPLES[name][1]:
            ops.append(["mkfile", inc, read_text(os.path.join(EXDIR, inc))])
    return ops


def corpus_list():
    d = os.path.join(VERIF, "corpus")
    return sorted(f for f in os.listdir(d) if f.endswith(".pqi"))


def split_simulations(text):
    """splits an input at END lines; every piece keeps its END.  Returns list of str."""
    pieces, cur = [], []
    for line in text.split("\n"):
        cur.append(line)
        if re.match(r"\s*END\b", line, re.I):
            pieces.append("\n".join(cur) + "\n")
            cur = []
    rest = "\n".join(cur)
    if rest.strip():
        pieces.append(rest + ("\n" if not rest.endswith("\n") else ""))
    return pieces


BANNER_RE = re.compile(r"-+\nEnd of Run after [^\n]* Seconds\.\n-+\n")


def mask_banner(s):
    return BANNER_RE.sub("<banner>\n", s)


def unpad_f(field):
    """F-binding result 'raw\\x1flen' -> (raw, len)"""
    raw, _, ln = field.rpartition("\x1f")
    try:
        return raw, int(ln)
    except ValueError:
        return field, -1       # malformed answer: compares unequal to every expectation


def f_expected(cstr, buflen):
    """what the Fortran binding must deliver for C string cstr in a buffer of buflen chars"""
    raw = cstr[:buflen].ljust(buflen)
    return raw, len(cstr)


def first_diff(a, b, ctx=60):
    n = min(len(a), len(b))
    i = 0
    while i < n and a[i] == b[i]:
        i += 1
    if i == n and len(a) == len(b):
        return None
    return "at %d: %r  vs  %r (lengths %d, %d)" % (i, a[max(0, i - ctx):i + ctx], b[max(0, i - ctx):i + ctx], len(a), len(b))
