"""Independent reader of the engine's RAW dump text (DUMP -all / dump_raw): entities, their numbers and fields.
Shares no code with the engine."""
import hashlib, re

HDR = re.compile(r"^([A-Z][A-Z_]*)_RAW\s+(-?\d+)\s?(.*)$")
KINDS = {"SOLUTION": "solution", "EQUILIBRIUM_PHASES": "equilibrium_phases", "EXCHANGE": "exchange", "SURFACE": "surface", "SOLID_SOLUTIONS": "solid_solutions",
         "GAS_PHASE": "gas_phase", "KINETICS": "kinetics", "MIX": "mix", "REACTION": "reaction", "REACTION_TEMPERATURE": "reaction_temperature", "REACTION_PRESSURE": "reaction_pressure"}


class Entity:
    __slots__ = ("kind", "n", "desc", "lines", "all_lines")

    def __init__(self, kind, n, desc):
        self.kind, self.n, self.desc, self.lines, self.all_lines = kind, n, desc, [], []

    def body(self):
        return "\n".join(self.lines)

    def content_lines(self):
        """lines that are content: sections introduced by a '... workspace variables' comment are scratch data of the last
        calculation (recomputed, e.g. KINETICS -totals by ListComponents) and are left out"""
        out, skip_indent = [], None
        for l in self.all_lines:
            st = l.strip()
            ind = len(l) - len(l.lstrip(" "))
            if st.startswith("#"):
                skip_indent = ind if "workspace" in st else None
                continue
            if skip_indent is not None:
                if ind >= skip_indent:
                    continue
                skip_indent = None
            out.append(l.rstrip())
        return out

    def content_id(self):
        return hashlib.sha1("\n".join(self.content_lines()).encode("latin-1", "replace")).hexdigest()[:16]

    def tree(self):
        return parse_tree(self.lines)


def entities(dump):
    out, cur, other = [], None, []
    for line in dump.split("\n"):
        m = HDR.match(line)
        if m and m.group(1) in KINDS:
            cur = Entity(KINDS[m.group(1)], int(m.group(2)), m.group(3).strip())
            out.append(cur)
        elif line[:1] not in (" ", "\t", "") and not line.startswith("#"):
            cur = None
            other.append(line)
        elif cur is not None:
            if line.strip():
                cur.all_lines.append(line.rstrip())
            if line.strip() and not line.strip().startswith("#"):
                cur.lines.append(line.rstrip())
    return out, other


def keyset(dump):
    return set((e.kind, e.n) for e in entities(dump)[0])


def parse_tree(lines):
    """indent-structured '-key value' text -> nested list of (indent, key, value, children)"""
    root = []
    stack = [(-1, root)]
    for line in lines:
        s = line.strip()
        if not s or s.startswith("#"):
            continue
        ind = len(line) - len(line.lstrip(" "))
        parts = s.split(None, 1)
        key, val = parts[0], (parts[1].split("#")[0].strip() if len(parts) > 1 else "")
        node = [ind, key, val, []]
        while stack and stack[-1][0] >= ind:
            stack.pop()
        stack[-1][1].append(node)
        stack.append((ind, node[3]))
    return root


def child(nodes, key):
    for n in nodes:
        if n[1] == key:
            return n
    return None


def children(nodes, key):
    return [n for n in nodes if n[1] == key]


def namedouble(node):
    """children of a '-totals'-like node -> dict name -> float"""
    out = {}
    if node is None:
        return out
    for c in node[3]:
        try:
            out[c[1]] = float(c[2].split()[0])
        except (ValueError, IndexError):
            pass
    return out


def fnum(node, default=0.0):
    if node is None:
        return default
    try:
        return float(node[2].split()[0])
    except (ValueError, IndexError):
        return default


def solution_fields(ent):
    t = ent.tree()
    return {"temp": fnum(child(t, "-temp"), 25.0), "pressure": fnum(child(t, "-pressure"), 1.0), "total_h": fnum(child(t, "-total_h")), "total_o": fnum(child(t, "-total_o")),
            "cb": fnum(child(t, "-cb")), "mass_water": fnum(child(t, "-mass_water"), 1.0), "totals": namedouble(child(t, "-totals")), "pH": fnum(child(t, "-pH"), 7.0), "pe": fnum(child(t, "-pe"), 4.0)}
