"""Oracle pieces for the output streams (shared by C05, C09, C07...)."""
import re
from common import first_diff

NOTSET = {
    "Output": "GetOutputString: OutputStringOn not set.\n",
    "Log": "GetLogString: LogStringOn not set.\n",
    "Dump": "GetDumpString: DumpStringOn not set.\n",
    "Error": "GetErrorString: ErrorStringOn not set.\n",
    "ErrorOff": "GetErrorString: ErrorOn not set.\n",
    "Sel": "GetSelectedOutputString: SelectedOutputStringOn not set.\n",
}


def getline_split(s):
    """what std::getline yields for a string"""
    if s == "":
        return []
    parts = s.split("\n")
    if parts[-1] == "":
        parts.pop()
    return parts


def parse_fslog(fields):
    out = []
    for i in range(0, len(fields) - 1, 2):
        h = fields[i].split("\x1f")
        out.append({"path": h[0], "mode": h[1], "ok": h[2] == "1", "err": int(h[3]), "wbytes": int(h[4]), "rbytes": int(h[5]),
                    "closed": h[6] == "1", "faults": int(h[7]), "seq_open": int(h[8]), "seq_close": int(h[9]), "data": fields[i + 1]})
    return out


def check_lines(rep, prop_cls, what, string, lines_field, count_field, detail_prefix):
    """lines_field: joined accessor results for indices -1 .. count+1 ; string: the stream's string"""
    want = getline_split(string)
    try:
        cnt = int(count_field)
    except Exception:
        cnt = -1
    got = lines_field.split("\x1e") if lines_field != "" or cnt >= 0 else []
    ok = True
    if cnt != len(want):
        rep.viol(prop_cls, "%s:linecount:%s" % (prop_cls, what), "%s %s: line count %s but the string has %d lines" % (detail_prefix, what, count_field, len(want)))
        return False
    # accessor sweep was -1 .. cnt+1  -> expected ["", l0 .. l(cnt-1), "", ""]
    exp = [""] + want + ["", ""]
    if got != exp:
        for i, (g, e) in enumerate(zip(got, exp)):
            if g != e:
                rep.viol(prop_cls, "%s:line:%s" % (prop_cls, what), "%s %s: line accessor %d returns %r, line of string is %r" % (detail_prefix, what, i - 1, g[:200], e[:200]))
                ok = False
                break
        else:
            rep.viol(prop_cls, "%s:line:%s" % (prop_cls, what), "%s %s: accessor sweep has %d entries, expected %d" % (detail_prefix, what, len(got), len(exp)))
            ok = False
    return ok


def unesc(cell):
    out, i = [], 0
    while i < len(cell):
        c = cell[i]
        if c == "\\" and i + 1 < len(cell):
            n = cell[i + 1]
            out.append({"t": "\t", "n": "\n", "\\": "\\"}.get(n, n))
            i += 2
        else:
            out.append(c)
            i += 1
    return "".join(out)


def parse_table(tab):
    """executor table encoding -> list of rows of cells ('E', 'L5', 'D0x1p+0', 'Sxyz', '!code..')"""
    rows = []
    for line in tab.split("\n"):
        if line == "":
            continue
        rows.append([unesc(c) for c in line.split("\t")])
    return rows


NUM_RE = re.compile(r"^[+-]?(\d+\.?\d*|\.\d+)([eE][+-]?\d+)?$")


def render_like(token, d):
    """re-renders double d in the style and precision of the printed token"""
    t = token.strip()
    m = re.match(r"^[+-]?(\d+)(\.(\d*))?([eE])([+-]?\d+)$", t)
    if m:
        prec = len(m.group(3) or "")
        s = ("%." + str(prec) + m.group(4)) % d
        return s
    m = re.match(r"^[+-]?(\d+)\.(\d*)$", t)
    if m:
        return ("%." + str(len(m.group(2))) + "f") % d
    m = re.match(r"^[+-]?\d+$", t)
    if m:
        return "%.0f" % d
    return None


def cell_matches_token(cell, token):
    t = token.strip()
    k = cell[0]
    if k == "S":
        return cell[1:].strip() == t
    if k == "L":
        return t == cell[1:] or (NUM_RE.match(t) is not None and float(t) == float(int(cell[1:])))
    if k == "D":
        d = float.fromhex(cell[1:])
        if t.lower() in ("nan", "-nan", "inf", "-inf"):
            return (d != d) if "nan" in t.lower() else (d == float(t))
        r = render_like(t, d)
        if r is None:
            return False
        if r == t:
            return True
        # "-0.0000e+00" vs "0.0000e+00" style differences do not occur with printf; compare numerically as a fallback
        try:
            return float(r) == float(t) and r.lstrip("+-") == t.lstrip("+-")
        except ValueError:
            return False
    return False


def check_sel_string_vs_table(rep, cls, n, string, table_rows, detail_prefix):
    """Selected-output text (heading lines + data lines) against the value table of user number n.
    Token i of a data line belongs to the table column named by heading i of the most recent heading line
    (values punched beyond the headings go to the columns no_heading_1, no_heading_2, ...); every other cell
    of that table row must be empty."""
    lines = getline_split(string)
    if not table_rows:
        # no row was punched in this call: the table has no columns; the text may still hold heading lines
        # (printed when a block is (re)defined), which is outside the statement (no data rows on either side)
        for l in lines:
            toks = [t.strip() for t in l.split("\t") if t.strip() != ""]
            if any(NUM_RE.match(t) for t in toks):
                rep.viol(cls, "%s:sel_string_without_table" % cls, "%s block %d: the table is empty but the string holds a data line %r" % (detail_prefix, n, l[:120]))
                break
        return 0
    headings = [c[1:].strip() if c.startswith("S") else None for c in table_rows[0]]
    if any(h is None for h in headings):
        rep.viol(cls, "%s:heading_not_string" % cls, "%s block %d: row 0 holds non-string cells: %r" % (detail_prefix, n, table_rows[0][:8]))
        return 0
    col_of = {}
    for ci, h in enumerate(headings):
        col_of.setdefault(h, ci)
        col_of.setdefault(re.sub(r"\((mol/kgw|eq/kgw|eq|C)\)$", "", h), ci)   # 'Na' / 'C(4)' for columns 'Na(mol/kgw)' / 'C(4)(mol/kgw)'
    data_rows = table_rows[1:]
    if data_rows and all(c == "E" for row in data_rows for c in row):
        # a block that punches nothing: its text holds heading lines and blank lines only
        for l in lines:
            st = [t.strip() for t in l.split("\t") if t.strip() != ""]
            if any(t not in col_of for t in st):
                rep.viol(cls, "%s:sel_cells" % cls, "%s block %d: every table cell is empty but the text holds %r" % (detail_prefix, n, l[:120]))
                break
        return len(data_rows)
    r = 0
    nhead = 0
    names = None
    for li, line in enumerate(lines):
        toks = line.split("\t")
        if toks and toks[-1].strip() == "" and line.endswith("\t"):
            toks = toks[:-1]
        st = [t.strip() for t in toks]
        if line == "" and r < len(data_rows) and all(c == "E" for c in data_rows[r]):
            r += 1          # a row in which nothing was punched
            continue
        is_heading = (line == "") or (len(st) > 0 and all(t in col_of for t in st) and any(NUM_RE.match(t) is None for t in st))
        if is_heading:
            nhead += 1
            names = [] if line == "" else st
            continue
        if names is None:
            rep.viol(cls, "%s:sel_no_heading_line" % cls, "%s block %d: data line %r precedes any heading line; tokens not among the table headings: %r; headings %r" % (detail_prefix, n, line[:60], [t for t in st if t not in col_of][:5], headings[:30]))
            return r
        if r >= len(data_rows):
            rep.viol(cls, "%s:sel_rows" % cls, "%s block %d: string has more data lines than the table has rows (%d); extra line %r" % (detail_prefix, n, len(data_rows), line[:120]))
            return r
        row = data_rows[r]
        problem = match_by_names(row, toks, names, col_of, headings)
        if problem:
            # headings of a USER_PUNCH can change without a new heading line in the text; then the cells are still the
            # row's non-empty cells in table order
            cells = [c for c in row if c != "E"]
            if not (len(cells) == len(toks) and all(cell_matches_token(c, t) for c, t in zip(cells, toks))):
                kind, msg = problem
                rep.viol(cls, "%s:%s" % (cls, kind), "%s block %d data row %d: %s; line %r; row %r" % (detail_prefix, n, r + 1, msg, line[:160], row[:12]))
                return r
        r += 1
    if r != len(data_rows):
        rep.viol(cls, "%s:sel_rows" % cls, "%s block %d: table has %d data rows, string has %d data lines (and %d heading lines)" % (detail_prefix, n, len(data_rows), r, nhead))
    return r


def match_by_names(row, toks, names, col_of, headings):
    used = set()
    for ti, t in enumerate(toks):
        name = names[ti] if ti < len(names) else "no_heading_%d" % (ti - len(names) + 1)
        ci = col_of.get(name)
        if ci is None or ci >= len(row):
            return ("sel_cells", "text cell %d (%r) belongs to column %r, which the table does not have (headings %r)" % (ti, t.strip()[:40], name, headings[:12]))
        used.add(ci)
        if row[ci] == "E" or not cell_matches_token(row[ci], t):
            return ("sel_value", "column %r: text %r is not the table value %r in the text's format" % (name, t, row[ci]))
    extra = [headings[ci] for ci, c in enumerate(row) if c != "E" and ci not in used]
    if extra:
        return ("sel_cells", "table cells %r hold values that the text line does not show" % (extra[:6],))
    return None


def check_table_shape(rep, cls, n, rows_field, cols_field, table_rows, detail_prefix):
    rows, cols = int(rows_field), int(cols_field)
    if (cols > 0) != (rows > 0):
        rep.viol(cls, "%s:shape" % cls, "%s block %d: RowCount %d, ColumnCount %d" % (detail_prefix, n, rows, cols))
        return
    if rows != len(table_rows):
        rep.viol(cls, "%s:shape" % cls, "%s block %d: RowCount %d but %d rows read" % (detail_prefix, n, rows, len(table_rows)))
        return
    for i, r in enumerate(table_rows):
        if len(r) != cols:
            rep.viol(cls, "%s:shape" % cls, "%s block %d row %d has %d cells, ColumnCount %d" % (detail_prefix, n, i, len(r), cols))
            return
        for j, c in enumerate(r):
            if c.startswith("!"):
                rep.viol(cls, "%s:in_range_error" % cls, "%s block %d cell (%d,%d) inside the table returned %r" % (detail_prefix, n, i, j, c))
                return
    if table_rows:
        for j, c in enumerate(table_rows[0]):
            if not c.startswith("S"):
                rep.viol(cls, "%s:heading_not_string" % cls, "%s block %d heading %d is %r" % (detail_prefix, n, j, c))
                return
