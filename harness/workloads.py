"""Named workload inputs shared by the harnesses (C04, C06, C07, C08, C10).

Every entry: name -> dict(db=<database path>, text=<input>, family=<engine area>, inc=[include files]).
Shipped examples are referred to by their file name; the short custom inputs below exist so that each
big engine area (speciation, reaction, kinetics with both integrators, advection, transport with
diffusion, inverse modelling, BASIC) has workloads that take milliseconds, which keeps many simulated
runs per hour affordable under the sanitizers."""
import os
from common import EXAMPLES, example_text, PHREEQC_DAT, DBDIR, EXDIR, read_text

SOLS = """SOLUTION 1
 temp 25
 pH 7.2
 Na 1.2
 Cl 1.0
 Ca 0.6
 C 1.3
 S(6) 0.2
"""

CUSTOM = {
    "w_spec": ("speciation", "TITLE w_spec\n" + SOLS + "SOLUTION 2\n temp 60\n pH 4 charge\n K 3\n N(5) 3\n Fe 0.01\n pe 8\nEND\n"),
    "w_react": ("reaction", SOLS + "EQUILIBRIUM_PHASES 1\n Calcite 0 1\n CO2(g) -2.5 1\nREACTION 1\n HCl 1\n 0.5 1 2 mmol\n"
                "SELECTED_OUTPUT 1\n -reset false\n -pH\n -totals Ca C\n -si Calcite\nSAVE solution 2\nEND\nUSE solution 2\nREACTION_TEMPERATURE 1\n 40 70\nEND\n"),
    "w_exch_surf": ("reaction", SOLS + "EXCHANGE 1\n X 0.01\n -equilibrate 1\nSURFACE 1\n Hfo_w 1e-3 600 1\n Hfo_s 5e-5\n -equilibrate 1\nEND\n"
                    "USE solution 1\nUSE exchange 1\nUSE surface 1\nREACTION 1\n CaCl2 1\n 1 mmol in 2 steps\nSAVE solution 3\nSAVE exchange 3\nSAVE surface 3\nEND\n"),
    "w_gas_ss": ("reaction", SOLS + "GAS_PHASE 1\n -fixed_pressure\n -pressure 1\n -volume 1\n CO2(g) 0.01\n N2(g) 0.99\n"
                 "SOLID_SOLUTIONS 1\n CaSrCO3\n -comp Calcite 0.01\n -comp Strontianite 0.001\nEND\nUSE solution 1\nUSE gas_phase 1\nUSE solid_solutions 1\n"
                 "REACTION 1\n SrCl2 1\n 0.1 mmol\nSAVE solution 4\nEND\n"),
    "w_kin_rk": ("kinetics", "RATES\n decay\n -start\n 10 rate = parm(1) * TOT(\"Na\")\n 20 moles = rate * TIME\n 30 SAVE moles\n -end\n" + SOLS +
                 "KINETICS 1\n decay\n -formula NaCl -1\n -m0 1\n -parms 1e-5\n -steps 3600 in 4 steps\n -runge_kutta 3\n"
                 "SELECTED_OUTPUT 1\n -reset false\n -time\n -totals Na Cl\n -kinetic_reactants decay\nINCREMENTAL_REACTIONS true\nEND\n"),
    "w_kin_cvode": ("kinetics", "RATES\n cc\n -start\n 10 si_cc = SI(\"Calcite\")\n 20 rate = parm(1) * (1 - 10^si_cc)\n 30 moles = rate * TIME\n 40 SAVE moles\n -end\n"
                    "SOLUTION 1\n pH 6\n C 1\n Ca 0.1\nKINETICS 1\n cc\n -formula CaCO3 1\n -m0 1e-2\n -parms 1e-7\n -steps 600 1200 3600\n -cvode true\n"
                    "SELECTED_OUTPUT 1\n -reset false\n -time\n -pH\n -totals Ca\nINCREMENTAL_REACTIONS false\nEND\n"),
    "w_adv": ("transport", "TITLE w_adv\nSOLUTION 0\n units mmol/kgw\n pH 7 charge\n Ca 0.6\n Cl 1.2\nSOLUTION 1-5\n units mmol/kgw\n pH 7 charge\n Na 1.0\n K 0.2\n N(5) 1.2\n"
              "EXCHANGE 1-5\n -equilibrate 1\n X 0.0011\nSELECTED_OUTPUT 1\n -reset false\n -step\n -totals Na Cl K Ca\n"
              "ADVECTION\n -cells 5\n -shifts 12\n -punch_cells 5\n -print_cells 5\n -print_frequency 6\nEND\n"),
    "w_trans": ("transport", "SOLUTION 0\n units mmol/kgw\n pH 7 charge\n Na 2\n Cl 2\nSOLUTION 1-6\n units mmol/kgw\n pH 7 charge\n K 1\n N(5) 1\n"
                "EXCHANGE 1-6\n -equilibrate 1\n X 0.001\nSELECTED_OUTPUT 1\n -reset false\n -distance\n -time\n -totals Na K Cl\n"
                "TRANSPORT\n -cells 6\n -shifts 8\n -time_step 3600\n -lengths 6*0.01\n -dispersivities 6*0.002\n -diffusion_coefficient 0.3e-9\n"
                " -boundary_conditions flux flux\n -punch_cells 1-6\n -punch_frequency 4\n -print_cells 6\n -print_frequency 8\nEND\n"),
    "w_trans_stag": ("transport", "SOLUTION 0\n Na 1\n Cl 1\nSOLUTION 1-3\n K 1\n Cl 1\nSOLUTION 5-7\n K 1\n Cl 1\nSELECTED_OUTPUT 1\n -reset false\n -soln\n -totals Na K\n"
                     "TRANSPORT\n -cells 3\n -shifts 4\n -time_step 1000\n -stagnant 1 6.8e-6 0.3 0.1\n -punch_frequency 2\nEND\n"),
    "w_inverse": ("inverse", "SOLUTION 1\n units mmol/kgw\n pH 7 charge\n Na 0.3\n Cl 0.3\n C 0.1\nEND\nUSE solution 1\nEQUILIBRIUM_PHASES 1\n Calcite 0 0.0006\n CO2(g) -2.0 1\nSAVE solution 2\nEND\n"
                  "INVERSE_MODELING 1\n -solutions 1 2\n -uncertainty 0.03\n -phases\n  Calcite\n  CO2(g)\n -balances\n  Na 0.05\n  Cl 0.05\n -range\nEND\n"),
    "w_basic": ("basic", SOLS + "USER_PRINT\n -start\n 10 FOR i = 1 TO 15\n 20 x = x + LOG10(i) * SIN(i) + SQRT(i)\n 30 NEXT i\n 40 a$ = \"v=\" + STR$(x)\n 50 PRINT a$, LA(\"H+\"), MOL(\"Ca+2\"), PAD(\"ab\", 6), TRIM(\"  cd \")\n -end\n"
                "USER_PUNCH 1\n -headings s1 s2 s3\n -start\n 10 DIM v(5)\n 20 FOR i = 1 TO 5\n 30 v(i) = i * TOT(\"Na\")\n 40 NEXT i\n 50 PUT(v(3), 1, 2)\n 60 PUNCH v(5), GET(1, 2), STR$(ALK)\n -end\n"
                "SELECTED_OUTPUT 1\n -reset false\n -user_punch true\nEND\nUSE solution 1\nREACTION 1\n NaOH 1\n 0.1 0.2 mmol\nEND\n"),
    "w_calcval": ("basic", "CALCULATE_VALUES\n ratio\n -start\n 10 SAVE TOT(\"Ca\") / TOT(\"Na\")\n -end\n" + SOLS +
                  "USER_PUNCH 2\n -headings r\n -start\n 10 PUNCH CALC_VALUE(\"ratio\")\n -end\nSELECTED_OUTPUT 2\n -reset false\n -high_precision true\nEND\n"),
    "w_adv_basic": ("basic", "SOLUTION 0 inflow water\n Na 1\n Cl 1\nSOLUTION 1-4 column water\n K 1\n N(5) 1\n"
                    "USER_PUNCH 1\n -headings cell dist step ttime descr tot_k pad\n -start\n 10 d$ = DESCRIPTION\n 20 PUNCH CELL_NO, DIST, STEP_NO, TOTAL_TIME, d$, TOT(\"K\"), PAD(STR$(CELL_NO), 4)\n -end\n"
                    "USER_PRINT\n -start\n 10 PRINT \"cell\", CELL_NO, DESCRIPTION, CHARGE_BALANCE, PERCENT_ERROR, RHO, SC\n 20 PRINT SYS(\"Na\"), KAPPA, GAMMA(\"Na+\"), LG(\"K+\"), LM(\"Cl-\"), EQUI(\"Calcite\")\n -end\n"
                    "SELECTED_OUTPUT 1\n -reset false\n -user_punch true\nADVECTION\n -cells 4\n -shifts 6\n -time_step 100\n -punch_cells 1-4\n -print_cells 2 4\n -print_frequency 3\nEND\n"),
    "w_mix_basic": ("basic", SOLS + "SOLUTION 2 second water\n K 2\n Cl 2\nEND\nMIX 3\n 1 0.4\n 2 0.6\nUSER_PUNCH 1\n -headings d m na\n -start\n 10 PUNCH DESCRIPTION, MISC1(\"x\"), TOT(\"Na\")\n -end\n"
                    "SELECTED_OUTPUT 1\n -reset false\n -user_punch true\nSAVE solution 0\nEND\nTRANSPORT\n -cells 2\n -shifts 2\nEND\n"),
    # fields of 4096 characters: the formatting helpers switch from a stack buffer to a heap buffer at 2048 (used by C06 only)
    "w_longpunch": ("basic", SOLS + "USER_PUNCH 1\n -headings long n\n -start\n 10 a$ = \"abcdefgh\"\n 20 FOR i = 1 TO 9\n 30 a$ = a$ + a$\n 40 NEXT i\n 50 PUNCH a$, LEN(a$)\n -end\n"
                    "USER_PRINT\n -start\n 10 b$ = \"0123456789\"\n 20 FOR i = 1 TO 8\n 30 b$ = b$ + b$\n 40 NEXT i\n 50 PRINT b$\n -end\n"
                    "SELECTED_OUTPUT 1\n -reset false\n -user_punch true\nEND\nUSE solution 1\nREACTION 1\n NaCl 1\n 0.1 0.2 0.3 mmol\nEND\n"),
    "w_sorted": ("speciation", "PRINT\n -species true\n -saturation_indices true\nSOLUTION 1\n pH 8\n Na 10\n Cl 10\n Ca 2\n Mg 1\n C 3\n S(6) 1\n K 0.5\n Fe 0.001\n Al 0.001\n Si 0.1\nEND\n"),
}

WORK = {}
for _n, (_fam, _txt) in CUSTOM.items():
    WORK[_n] = dict(db=PHREEQC_DAT, text=_txt, family=_fam, inc=[])
_FAM = {"ex1": "speciation", "ex2": "reaction", "ex2b": "reaction", "ex3": "reaction", "ex4": "reaction", "ex5": "reaction", "ex6": "kinetics",
        "ex7": "reaction", "ex8": "reaction", "ex9": "kinetics", "ex10": "reaction", "ex13a": "transport", "ex14": "transport", "ex16": "inverse",
        "ex17": "inverse", "ex18": "inverse", "ex19": "reaction", "ex20a": "basic", "ex22": "reaction", "ex11": "transport", "ex12": "transport"}
for _n, _fam in _FAM.items():
    WORK[_n] = dict(db=EXAMPLES[_n][0], text=None, family=_fam, inc=EXAMPLES[_n][1])

C06_ONLY = ["w_longpunch"]
FAST = sorted(k for k in CUSTOM if k not in C06_ONLY) + ["ex1", "ex2", "ex2b", "ex3", "ex4", "ex5", "ex7", "ex8", "ex9", "ex16", "ex17", "ex19"]
MEDIUM = FAST + ["ex6", "ex10", "ex13a", "ex14", "ex18", "ex20a", "ex22"]
FAMILIES = sorted(set(w["family"] for w in WORK.values()))


def text(name):
    w = WORK[name]
    return w["text"] if w["text"] is not None else example_text(name)


def db(name):
    return WORK[name]["db"]


def inc_ops(name):
    return [["mkfile", inc, read_text(os.path.join(EXDIR, inc))] for inc in WORK[name]["inc"]]


def by_db(dbpath, pool):
    return [n for n in pool if WORK[n]["db"] == dbpath]
