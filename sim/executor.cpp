// Plan executor: reads plans (operations with attached faults, schedule seed, knobs) from stdin,
// executes them against the real library under the simulated seams and writes one result record
// per operation.  It draws no random number and reads no real clock: an execution is a pure
// function of the plan and of the code under test.
#include <algorithm>
#include <cassert>
#include <cerrno>
#include <cmath>
#include <cstdarg>
#include <cstdio>
#include <cstdlib>
#include <cstring>
#include <map>
#include <sstream>
#include <string>
#include <vector>
#include <dirent.h>
#include <sys/stat.h>
#include <unistd.h>

#include "IPhreeqc.hpp"
#include "IPhreeqc.h"
#include "IPhreeqc_interface_F.h"
#include "Phreeqc.h"
#include "sim.h"

#ifdef IPHREEQC_VERIF
#include "verif_hooks.h"
#endif

// ---------------------------------------------------------------------------------------------
// sanitizer defaults and report hooks
extern "C" __attribute__((used, visibility("default"))) const char *__asan_default_options()
{
	return "exitcode=77:detect_leaks=0:allocator_may_return_null=1:handle_abort=1:detect_stack_use_after_return=0";
}
extern "C" __attribute__((used, visibility("default"))) const char *__ubsan_default_options()
{
	return "print_stacktrace=1:halt_on_error=1:exitcode=77";
}
extern "C" __attribute__((used, visibility("default"))) const char *__tsan_default_options()
{
	return "halt_on_error=0:exitcode=0:report_signal_unsafe=0:second_deadlock_stack=1";
}
static long g_tsan_reports = 0;
extern "C" __attribute__((used, visibility("default"))) void __tsan_on_report(void *)
{
	g_tsan_reports++;
	sim_event("tsan_report");
}

// ---------------------------------------------------------------------------------------------
typedef std::vector<std::string> Fields;

static std::string itos(long v) { char b[32]; snprintf(b, sizeof b, "%ld", v); return b; }
static std::string hexd(double d) { char b[64]; snprintf(b, sizeof b, "%a", d); return b; }

enum { M_OUT = 0, M_LOG = 1, M_PUNCH = 2, M_SCREEN = 3, M_WARN = 4, M_ERR = 5, M_ANY = 6 };
static const char *g_class_names[] = {"output", "log", "punch", "screen", "warning", "error", "any"};

class SimIPhreeqc : public IPhreeqc
{
public:
	long cnt[6], total;
	int  abort_class;
	long abort_k, budget_msgs;
	bool armed, fired, budget_hit, pending;
	int  nest;     // > 0 while inside the library's own warning_msg/error_msg (which print through output_msg/log_msg)
	SimIPhreeqc() : total(0), abort_class(-1), abort_k(0), budget_msgs(0), armed(false), fired(false), budget_hit(false), pending(false), nest(0)
	{
		memset(cnt, 0, sizeof cnt);
	}
	void call_begin() { memset(cnt, 0, sizeof cnt); total = 0; fired = false; budget_hit = false; armed = true; pending = false; nest = 0; }
	void call_end() { armed = false; abort_k = 0; abort_class = -1; budget_msgs = 0; }
	void tick(int cls)
	{
		if (!armed) return;
		cnt[cls]++;
		total++;
		if (fired || budget_hit) return;
		if (abort_k > 0 && cls != M_ERR) {
			long n = (abort_class == M_ANY) ? total : (abort_class == cls ? cnt[cls] : -1);
			// The engine never raises an error from inside the printing of a warning or error message (IPhreeqc::warning_msg
			// and error_msg switch error_on off around the nested print); a stop planned for such a nested message is
			// raised at the next message outside, which is a point where a genuine engine error can occur.
			if (n == abort_k && nest > 0) pending = true;
			else if (n == abort_k || (pending && nest == 0)) {
				pending = false;
				fired = true;
				sim_event("abort %s k=%ld", g_class_names[abort_class], abort_k);
				this->IPhreeqc::error_msg("ERROR: simulated stop (injected abort)\n", true);
			}
		}
		if (budget_msgs > 0 && total > budget_msgs && cls != M_ERR && nest == 0) {
			budget_hit = true;
			sim_event("budget_stop msgs=%ld", total);
			this->IPhreeqc::error_msg("ERROR: simulated stop (budget exceeded)\n", true);
		}
	}
	// A switch point right after every sink call: a thread can be parked between the formatting of one field and whatever
	// follows, which is where scratch state shared between instances (static buffers of the formatting helpers) would show.
	// and, for clients that asked for it (op "gate"), a rendezvous right before: all threads then enter the same sink one after the other.
	virtual void output_msg(const char *s) { tick(M_OUT); sim_gate(); IPhreeqc::output_msg(s); sim_switch_point(SW_API); }
	virtual void log_msg(const char *s) { tick(M_LOG); IPhreeqc::log_msg(s); sim_switch_point(SW_API); }
	virtual void punch_msg(const char *s) { tick(M_PUNCH); sim_gate(); IPhreeqc::punch_msg(s); sim_switch_point(SW_API); }
	virtual void screen_msg(const char *s) { tick(M_SCREEN); IPhreeqc::screen_msg(s); }
	virtual void fpunchf(const char *name, const char *format, double d) { sim_gate(); IPhreeqc::fpunchf(name, format, d); sim_switch_point(SW_API); }
	virtual void fpunchf(const char *name, const char *format, char *d) { sim_gate(); IPhreeqc::fpunchf(name, format, d); sim_switch_point(SW_API); }
	virtual void fpunchf(const char *name, const char *format, int d) { sim_gate(); IPhreeqc::fpunchf(name, format, d); sim_switch_point(SW_API); }
	virtual void fpunchf_end_row(const char *format) { sim_gate(); IPhreeqc::fpunchf_end_row(format); sim_switch_point(SW_API); }
	struct Nest { int &n; Nest(int &x) : n(x) { n++; } ~Nest() { n--; } };
	virtual void warning_msg(const char *s) { tick(M_WARN); Nest g(nest); IPhreeqc::warning_msg(s); }
	virtual void error_msg(const char *s, bool stop = false) { if (armed) { cnt[M_ERR]++; } Nest g(nest); IPhreeqc::error_msg(s, stop); }

	Phreeqc *engine() { return this->PhreeqcPtr; }
	std::string accumulated() { return this->GetAccumulatedLines(); }
	std::string engine_op(const std::string &what, const Fields &args);
};

static std::string acc_of(IPhreeqc *p)
{
	SimIPhreeqc *s = dynamic_cast<SimIPhreeqc *>(p);
	return s ? s->accumulated() : std::string("\x01NA");
}

struct Slot { IPhreeqc *p; SimIPhreeqc *sim; int id; int kind; bool live; };
static std::map<int, Slot> g_slots[SIM_MAX_CLIENTS];   // per client: no sharing between client threads

struct Op { Fields a; };
static std::vector<Op> g_ops[SIM_MAX_CLIENTS];
static std::string g_out[SIM_MAX_CLIENTS];
static __thread int g_fbuf = 400;     // Fortran-binding buffer length (per client)
static __thread long tl_imported[64]; // ids received from other clients ("await")
static std::string g_sandbox;

static void emit(int client, int opidx, long s0, long s1, const Fields &f)
{
	std::string &o = g_out[client];
	char h[128];
	snprintf(h, sizeof h, "R %d %d %ld %ld %zu\n", client, opidx, s0, s1, f.size());
	o += h;
	for (size_t i = 0; i < f.size(); i++) {
		snprintf(h, sizeof h, "%zu\n", f[i].size());
		o += h; o += f[i]; o += "\n";
	}
}

// ---------------------------------------------------------------------------------------------
// generic API dispatch over the three bindings
enum { B_CPP = 0, B_C = 1, B_F = 2 };

#define SWITCHES(X) X(DumpFileOn) X(DumpStringOn) X(ErrorFileOn) X(ErrorOn) X(ErrorStringOn) X(LogFileOn) X(LogStringOn) \
	X(OutputFileOn) X(OutputStringOn) X(SelectedOutputFileOn) X(SelectedOutputStringOn)
#define NAMES(X) X(DumpFileName) X(ErrorFileName) X(LogFileName) X(OutputFileName) X(SelectedOutputFileName)
#define LINESTREAMS(X) X(Dump) X(Error) X(Log) X(Output) X(SelectedOutput) X(Warning)
#define INTGETS(X) X(GetCurrentSelectedOutputUserNumber) X(GetSelectedOutputColumnCount) X(GetSelectedOutputCount) \
	X(GetSelectedOutputRowCount) X(GetComponentCount)

static const char *cstr_or_null(const std::string &s) { return s == std::string("\x01NULL") ? (const char *)0 : s.c_str(); }

static std::string fres(const std::string &buf, int len) { return buf + "\x1f" + itos(len); }

static std::string var_render(const VAR &v)
{
	switch (v.type) {
	case TT_EMPTY:  return "E";
	case TT_ERROR:  return "X" + itos((long)v.vresult);
	case TT_LONG:   return "L" + itos(v.lVal);
	case TT_DOUBLE: return "D" + hexd(v.dVal);
	case TT_STRING: return std::string("S") + (v.sVal ? v.sVal : "\x01NULL");
	}
	return "?" + itos((long)v.type);
}

static bool api_call(int b, IPhreeqc *p, int id, const std::string &fn, const Fields &a, size_t ai, Fields &r)
{
	int n1 = 0, n2 = 0, n3 = 0;
	if (a.size() > ai) n1 = atoi(a[ai].c_str());
	if (a.size() > ai + 1) n2 = atoi(a[ai + 1].c_str());
	if (a.size() > ai + 2) n3 = atoi(a[ai + 2].c_str());
	std::string s1 = a.size() > ai ? a[ai] : std::string();
	char *fb = 0;
	std::vector<char> fbuf;
	int flen = g_fbuf;
	if (b == B_F) { fbuf.assign(g_fbuf + 8, '#'); fb = &fbuf[0]; }
	(void)n3;

#define X(N) \
	if (fn == "Get" #N) { \
		if (b == B_CPP) r.push_back(itos(p->Get##N() ? 1 : 0)); \
		else if (b == B_C) r.push_back(itos(::Get##N(id))); \
		else r.push_back(itos(::Get##N##F(&id))); \
		return true; } \
	if (fn == "Set" #N) { \
		if (b == B_CPP) { p->Set##N(n1 != 0); r.push_back("0"); } \
		else if (b == B_C) r.push_back(itos(::Set##N(id, n1))); \
		else r.push_back(itos(::Set##N##F(&id, &n1))); \
		return true; }
	SWITCHES(X)
#undef X
#define X(N) \
	if (fn == "Get" #N) { \
		if (b == B_CPP) r.push_back(p->Get##N()); \
		else if (b == B_C) r.push_back(::Get##N(id)); \
		else { ::Get##N##F(&id, fb, &flen); r.push_back(fres(std::string(fb, g_fbuf), flen)); } \
		return true; } \
	if (fn == "Set" #N) { \
		if (b == B_CPP) { p->Set##N(cstr_or_null(s1)); r.push_back("0"); } \
		else if (b == B_C) r.push_back(itos(::Set##N(id, cstr_or_null(s1)))); \
		else { std::string t(s1); r.push_back(itos(::Set##N##F(&id, (char *)cstr_or_null(t)))); } \
		return true; }
	NAMES(X)
#undef X
#define X(N) \
	if (fn == "Get" #N "StringLineCount") { \
		if (b == B_CPP) r.push_back(itos(p->Get##N##StringLineCount())); \
		else if (b == B_C) r.push_back(itos(::Get##N##StringLineCount(id))); \
		else r.push_back(itos(::Get##N##StringLineCountF(&id))); \
		return true; } \
	if (fn == "Get" #N "StringLine") { \
		if (b == B_CPP) r.push_back(p->Get##N##StringLine(n1)); \
		else if (b == B_C) r.push_back(::Get##N##StringLine(id, n1)); \
		else { ::Get##N##StringLineF(&id, &n1, fb, &flen); r.push_back(fres(std::string(fb, g_fbuf), flen)); } \
		return true; } \
	if (fn == "Get" #N "String") { \
		if (b == B_CPP) r.push_back(p->Get##N##String()); \
		else r.push_back(::Get##N##String(id)); \
		return true; }
	LINESTREAMS(X)
#undef X
#define X(N) \
	if (fn == #N) { \
		if (b == B_CPP) r.push_back(itos((long)p->N())); \
		else if (b == B_C) r.push_back(itos(::N(id))); \
		else r.push_back(itos(::N##F(&id))); \
		return true; }
	INTGETS(X)
#undef X
	if (fn == "DestroyRaw") {   // destroy by raw id through the C / Fortran binding (never for ids the executor still tracks as live)
		if (b == B_F) r.push_back(itos(::DestroyIPhreeqcF(&id))); else r.push_back(itos(::DestroyIPhreeqc(id)));
		return true;
	}
	if (fn == "GetId") { r.push_back(itos(b == B_CPP ? p->GetId() : id)); return true; }
	if (fn == "GetNthSelectedOutputUserNumber") {
		if (b == B_CPP) r.push_back(itos(p->GetNthSelectedOutputUserNumber(n1)));
		else if (b == B_C) r.push_back(itos(::GetNthSelectedOutputUserNumber(id, n1)));
		else r.push_back(itos(::GetNthSelectedOutputUserNumberF(&id, &n1)));
		return true;
	}
	if (fn == "SetCurrentSelectedOutputUserNumber") {
		if (b == B_CPP) r.push_back(itos(p->SetCurrentSelectedOutputUserNumber(n1)));
		else if (b == B_C) r.push_back(itos(::SetCurrentSelectedOutputUserNumber(id, n1)));
		else r.push_back(itos(::SetCurrentSelectedOutputUserNumberF(&id, &n1)));
		return true;
	}
	if (fn == "GetComponent") {
		if (b == B_CPP) r.push_back(p->GetComponent(n1));
		else if (b == B_C) r.push_back(::GetComponent(id, n1));
		else { ::GetComponentF(&id, &n1, fb, &flen); r.push_back(fres(std::string(fb, g_fbuf), flen)); }
		return true;
	}
	if (fn == "GetSelectedOutputValue") {
		VAR v; VarInit(&v);
		int rc;
		if (b == B_CPP) rc = p->GetSelectedOutputValue(n1, n2, &v);
		else rc = ::GetSelectedOutputValue(id, n1, n2, &v);
		r.push_back(itos(rc)); r.push_back(var_render(v));
		VarClear(&v);
		return true;
	}
	if (fn == "GetSelectedOutputValue2" || fn == "GetSelectedOutputValueF") {
		int vt = -99; double dv = -12345.5;
		int blen = a.size() > ai + 2 ? n3 : 100;
		if (blen < 1) blen = 1;
		std::vector<char> sv(blen + 8, '#');
		int rc;
		int rl = blen;
		if (b == B_CPP) rc = p->GetSelectedOutputValue2(n1, n2, &vt, &dv, &sv[0], (unsigned)blen);
		else if (b == B_C) rc = ::GetSelectedOutputValue2(id, n1, n2, &vt, &dv, &sv[0], (unsigned)blen);
		else rc = ::GetSelectedOutputValueF(&id, &n1, &n2, &vt, &dv, &sv[0], &rl);
		r.push_back(itos(rc)); r.push_back(itos(vt)); r.push_back(hexd(dv));
		r.push_back(std::string(&sv[0], blen)); r.push_back(itos(rl));
		r.push_back(std::string(&sv[blen], 8));   // guard bytes: must stay '#'
		return true;
	}
	if (fn == "AccumulateLine") {
		if (b == B_CPP) r.push_back(itos(p->AccumulateLine(s1.c_str())));
		else if (b == B_C) r.push_back(itos(::AccumulateLine(id, s1.c_str())));
		else { std::string t(s1); r.push_back(itos(::AccumulateLineF(&id, (char *)t.c_str()))); }
		return true;
	}
	if (fn == "ClearAccumulatedLines") {
		if (b == B_CPP) { p->ClearAccumulatedLines(); r.push_back("0"); }
		else if (b == B_C) r.push_back(itos(::ClearAccumulatedLines(id)));
		else r.push_back(itos(::ClearAccumulatedLinesF(&id)));
		return true;
	}
	if (fn == "GetAccumulatedLines") { r.push_back(p ? acc_of(p) : std::string("\x01NA")); return true; }
	if (fn == "AddError" || fn == "AddWarning") {
		bool e = fn == "AddError";
		if (b == B_CPP) r.push_back(itos((long)(e ? p->AddError(s1.c_str()) : p->AddWarning(s1.c_str()))));
		else if (b == B_C) r.push_back(itos(e ? ::AddError(id, s1.c_str()) : ::AddWarning(id, s1.c_str())));
		else { std::string t(s1); r.push_back(itos(e ? ::AddErrorF(&id, (char *)t.c_str()) : ::AddWarningF(&id, (char *)t.c_str()))); }
		return true;
	}
#define RUNLIKE(N, ARG) \
	if (fn == #N) { \
		if (b == B_CPP) r.push_back(itos(p->N(ARG))); \
		else if (b == B_C) r.push_back(itos(::N(id, ARG))); \
		else { std::string t(s1); r.push_back(itos(::N##F(&id, (char *)cstr_or_null(t)))); } \
		return true; }
	RUNLIKE(LoadDatabase, cstr_or_null(s1))
	RUNLIKE(LoadDatabaseString, cstr_or_null(s1))
	RUNLIKE(RunFile, cstr_or_null(s1))
	RUNLIKE(RunString, cstr_or_null(s1))
#undef RUNLIKE
	if (fn == "RunAccumulated") {
		if (b == B_CPP) r.push_back(itos(p->RunAccumulated()));
		else if (b == B_C) r.push_back(itos(::RunAccumulated(id)));
		else r.push_back(itos(::RunAccumulatedF(&id)));
		return true;
	}
	if (fn == "GetVersionString") {
		if (b == B_CPP) r.push_back(IPhreeqc::GetVersionString());
		else if (b == B_C) r.push_back(::GetVersionString());
		else { ::GetVersionStringF(fb, &flen); r.push_back(fres(std::string(fb, g_fbuf), flen)); }
		return true;
	}
	return false;
}

static bool is_heavy(const std::string &fn)
{
	return fn == "RunString" || fn == "RunFile" || fn == "RunAccumulated" || fn == "LoadDatabase" || fn == "LoadDatabaseString";
}

// resolves a target ("s<slot>" or "i<raw id>") for a binding
static bool resolve(int client, const std::string &t, int b, IPhreeqc *&p, int &id, SimIPhreeqc *&sim)
{
	p = 0; sim = 0; id = -1;
	if (t.size() < 2) return false;
	if (t[0] == 'i') { id = atoi(t.c_str() + 1); return b != B_CPP; }
	if (t[0] == 'f') { id = (int)tl_imported[atoi(t.c_str() + 1) & 63]; return b != B_CPP; }     // id received from another client
	std::map<int, Slot>::iterator it = g_slots[client].find(atoi(t.c_str() + 1));
	if (it == g_slots[client].end()) return false;
	id = it->second.id;
	if (!it->second.live) return b != B_CPP;
	p = it->second.p; sim = it->second.sim;
	return true;
}

static std::string join(const Fields &f, char sep)
{
	std::string o;
	for (size_t i = 0; i < f.size(); i++) { if (i) o += sep; o += f[i]; }
	return o;
}
static std::string esc_cell(const std::string &s)
{
	std::string o;
	for (size_t i = 0; i < s.size(); i++) {
		char c = s[i];
		if (c == '\\') o += "\\\\"; else if (c == '\t') o += "\\t"; else if (c == '\n') o += "\\n"; else o += c;
	}
	return o;
}

static std::string one(int b, IPhreeqc *p, int id, const char *fn, int n = 0, int m = 0)
{
	Fields a, r;
	a.push_back(itos(n)); a.push_back(itos(m));
	if (!api_call(b, p, id, fn, a, 0, r) || r.empty()) return "\x01UNSUPPORTED";
	return r[0];
}

// flags: G getters, S whole strings, L lines, T tables, C components, A accumulated
static void transcript(int b, IPhreeqc *p, int id, const std::string &flags, Fields &r)
{
	bool G = flags.find('G') != std::string::npos, S = flags.find('S') != std::string::npos;
	bool L = flags.find('L') != std::string::npos, T = flags.find('T') != std::string::npos;
	bool C = flags.find('C') != std::string::npos, A = flags.find('A') != std::string::npos;
#define KV(k, v) do { r.push_back(k); r.push_back(v); } while (0)
	if (G) {
		KV("id", one(b, p, id, "GetId"));
#define X(N) KV("b." #N, one(b, p, id, "Get" #N));
		SWITCHES(X)
#undef X
#define X(N) KV("n." #N, one(b, p, id, "Get" #N));
		NAMES(X)
#undef X
		KV("cur", one(b, p, id, "GetCurrentSelectedOutputUserNumber"));
	}
	static const char *streams[] = {"Error", "Warning", "Output", "Log", "Dump"};
	for (int i = 0; i < 5; i++) {
		std::string base = std::string("Get") + streams[i] + "String";
		if (S && b != B_F) KV(std::string("s.") + streams[i], one(b, p, id, base.c_str()));
		if (L) {
			int n = atoi(one(b, p, id, (base + "LineCount").c_str()).c_str());
			KV(std::string("lc.") + streams[i], itos(n));
			Fields ls;
			int off = (b == B_F) ? 1 : 0;
			for (int k = -1; k < n + 2; k++) ls.push_back(one(b, p, id, (base + "Line").c_str(), k + off));
			KV(std::string("l.") + streams[i], join(ls, '\x1e'));
		}
	}
	if (T || S || L) {
		int cur = atoi(one(b, p, id, "GetCurrentSelectedOutputUserNumber").c_str());
		int cnt = atoi(one(b, p, id, "GetSelectedOutputCount").c_str());
		KV("selcount", itos(cnt));
		Fields nums;
		for (int i = 0; i < cnt; i++) nums.push_back(one(b, p, id, "GetNthSelectedOutputUserNumber", i + (b == B_F ? 1 : 0)));
		KV("selnums", join(nums, ','));
		for (int i = 0; i < cnt; i++) {
			int n = atoi(nums[i].c_str());
			if (n < 0) continue;
			one(b, p, id, "SetCurrentSelectedOutputUserNumber", n);
			std::string pre = "sel." + itos(n) + ".";
			if (G) {
				KV(pre + "fileon", one(b, p, id, "GetSelectedOutputFileOn"));
				KV(pre + "stringon", one(b, p, id, "GetSelectedOutputStringOn"));
				KV(pre + "filename", one(b, p, id, "GetSelectedOutputFileName"));
			}
			int rows = atoi(one(b, p, id, "GetSelectedOutputRowCount").c_str());
			int cols = atoi(one(b, p, id, "GetSelectedOutputColumnCount").c_str());
			KV(pre + "rows", itos(rows));
			KV(pre + "cols", itos(cols));
			if (S && b != B_F) KV(pre + "string", one(b, p, id, "GetSelectedOutputString"));
			if (L) {
				int lc = atoi(one(b, p, id, "GetSelectedOutputStringLineCount").c_str());
				KV(pre + "lc", itos(lc));
				Fields ls;
				int off = (b == B_F) ? 1 : 0;
				for (int k = -1; k < lc + 2; k++) ls.push_back(one(b, p, id, "GetSelectedOutputStringLine", k + off));
				KV(pre + "lines", join(ls, '\x1e'));
			}
			if (T) {
				std::string tab;
				// GetSelectedOutputRowCountF excludes the heading row; row indices are not shifted
				int nrows = (b == B_F) ? ((cols > 0) ? rows + 1 : 0) : rows;
				for (int rr = 0; rr < nrows; rr++) {
					for (int cc = 0; cc < cols; cc++) {
						Fields a, o;
						if (b == B_F) {
							a.push_back(itos(rr)); a.push_back(itos(cc + 1)); a.push_back("120");
							api_call(b, p, id, "GetSelectedOutputValueF", a, 0, o);
							// rc, vtype, dvalue, svalue, len
							tab += esc_cell(o[0] + "|" + o[1] + "|" + o[2] + "|" + o[3] + "|" + o[4]);
						} else {
							a.push_back(itos(rr)); a.push_back(itos(cc));
							api_call(b, p, id, "GetSelectedOutputValue", a, 0, o);
							tab += esc_cell(o[0] == "0" ? o[1] : ("!" + o[0] + o[1]));
						}
						if (cc + 1 < cols) tab += '\t';
					}
					tab += '\n';
				}
				KV(pre + "table", tab);
			}
		}
		one(b, p, id, "SetCurrentSelectedOutputUserNumber", cur);
	}
	if (C) {
		int n = atoi(one(b, p, id, "GetComponentCount").c_str());
		Fields cs;
		for (int k = 0; k < n; k++) cs.push_back(one(b, p, id, "GetComponent", k + (b == B_F ? 1 : 0)));
		KV("comps", join(cs, '\x1e'));
	}
	if (A && p) KV("acc", acc_of(p));
#undef KV
}

// ---------------------------------------------------------------------------------------------
static void rm_rf_contents(const std::string &dir)
{
	DIR *d = opendir(dir.c_str());
	if (!d) return;
	struct dirent *e;
	while ((e = readdir(d))) {
		if (!strcmp(e->d_name, ".") || !strcmp(e->d_name, "..")) continue;
		std::string p = dir + "/" + e->d_name;
		struct stat st;
		if (lstat(p.c_str(), &st) == 0 && S_ISDIR(st.st_mode)) { rm_rf_contents(p); rmdir(p.c_str()); }
		else unlink(p.c_str());
	}
	closedir(d);
}
static void list_files(const std::string &dir, const std::string &rel, Fields &out)
{
	DIR *d = opendir(dir.c_str());
	if (!d) return;
	struct dirent *e;
	std::vector<std::string> names;
	while ((e = readdir(d))) {
		if (!strcmp(e->d_name, ".") || !strcmp(e->d_name, "..")) continue;
		names.push_back(e->d_name);
	}
	closedir(d);
	std::sort(names.begin(), names.end());
	for (size_t i = 0; i < names.size(); i++) {
		std::string p = dir + "/" + names[i];
		struct stat st;
		if (lstat(p.c_str(), &st)) continue;
		if (S_ISDIR(st.st_mode)) list_files(p, rel + names[i] + "/", out);
		else out.push_back(rel + names[i] + ":" + itos((long)st.st_size));
	}
}
static bool slurp(const std::string &path, std::string &out)
{
	FILE *f = fopen(path.c_str(), "rb");
	if (!f) return false;
	char buf[65536]; size_t n;
	out.clear();
	while ((n = fread(buf, 1, sizeof buf, f)) > 0) out.append(buf, n);
	fclose(f);
	return true;
}

#ifdef IPHREEQC_VERIF
// H1 buggify state (per client thread).  mode 1: a converged attempt is reported as failed ("post");
// mode 2: the attempt is skipped and reported as failed ("pre").
static __thread long tl_bug_fail_first = 0, tl_bug_every = 0, tl_bug_calls = 0, tl_bug_fired = 0, tl_bug_phase = 0, tl_bug_mode = 0;
static __thread int tl_bug_selected = 0;
static int buggify_cb(const char *site, int attempt)
{
	if (tl_bug_fail_first <= 0) return 0;
	bool pre = strcmp(site, "set_and_run_pre") == 0;
	if (pre && attempt == 0) {
		tl_bug_calls++;
		tl_bug_selected = (tl_bug_every <= 1) || (((tl_bug_calls + tl_bug_phase) % tl_bug_every) == 0);
	}
	if (!tl_bug_selected) return 0;
	if ((tl_bug_mode == 2) != pre) return 0;
	if (attempt < tl_bug_fail_first) { tl_bug_fired++; return 1; }
	return 0;
}
#endif

// ---------------------------------------------------------------------------------------------
static void run_op(int client, int opidx, const Op &op)
{
	const Fields &a = op.a;
	Fields r;
	long s0 = sim_next_seq();
	const std::string &name = a[0];
	sim_switch_point(SW_API);
	if (name == "create") {
		int slot = atoi(a[1].c_str());
		const std::string &kind = a[2];
		Slot s; s.p = 0; s.sim = 0; s.id = -1; s.live = false; s.kind = 0;
		sim_call_begin();
		try {
			if (kind == "sim") { s.sim = new SimIPhreeqc; s.p = s.sim; s.id = s.p->GetId(); s.live = true; }
			else if (kind == "cpp") { s.p = new IPhreeqc; s.id = s.p->GetId(); s.live = true; }
			else if (kind == "c") { s.id = ::CreateIPhreeqc(); s.live = s.id >= 0; s.kind = 1; }
			else { s.id = ::CreateIPhreeqcF(); s.live = s.id >= 0; s.kind = 1; }
		} catch (const std::exception &e) { r.push_back(std::string("EXC:") + e.what()); }
		catch (...) { r.push_back("EXC:unknown"); }
		sim_call_end();
		g_slots[client][slot] = s;
		r.insert(r.begin(), itos(s.id));
	} else if (name == "destroy") {
		int slot = atoi(a[1].c_str());
		const std::string &how = a[2];
		std::map<int, Slot>::iterator it = g_slots[client].find(slot);
		if (it == g_slots[client].end()) r.push_back("noslot");
		else {
			Slot &s = it->second;
			sim_call_begin();
			try {
				if (how == "cpp") {
					if (s.live && s.p && s.kind == 0) { delete s.p; s.p = 0; s.sim = 0; s.live = false; r.push_back("0"); }
					else r.push_back("skip");
				} else {
					int id = s.id;
					int rc = (how == "c") ? (int)::DestroyIPhreeqc(id) : ::DestroyIPhreeqcF(&id);
					if (rc == 0) { s.live = false; s.p = 0; s.sim = 0; }
					r.push_back(itos(rc));
				}
			} catch (const std::exception &e) { r.push_back(std::string("EXC:") + e.what()); }
			catch (...) { r.push_back("EXC:unknown"); }
			sim_call_end();
		}
	} else if (name == "call" || name == "transcript") {
		int b = a[1] == "cpp" ? B_CPP : (a[1] == "c" ? B_C : B_F);
		IPhreeqc *p; int id; SimIPhreeqc *sim;
		if (!resolve(client, a[2], b, p, id, sim)) r.push_back("\x01" "BADTARGET");
		else {
			bool heavy = name == "call" && is_heavy(a[3]);
			sim_call_begin();
			if (sim && heavy) sim->call_begin();
			try {
				if (name == "call") { if (!api_call(b, p, id, a[3], a, 4, r)) r.push_back("\x01UNSUPPORTED"); }
				else transcript(b, p, id, a[3], r);
			} catch (const std::exception &e) { r.push_back(std::string("EXC:") + e.what()); }
			catch (...) { r.push_back("EXC:unknown"); }
			SimClient *c = sim_self();
			if (heavy) {
				char ctr[400];
				snprintf(ctr, sizeof ctr, "ctr alloc=%ld clock=%ld fileop=%ld mutex=%ld alloc_failed=%ld out=%ld log=%ld punch=%ld screen=%ld warn=%ld err=%ld abort=%d budget=%d",
				         c->n_alloc, c->n_clock, c->n_fileop, c->n_mutex, c->alloc_failed,
				         sim ? sim->cnt[0] : -1, sim ? sim->cnt[1] : -1, sim ? sim->cnt[2] : -1, sim ? sim->cnt[3] : -1,
				         sim ? sim->cnt[4] : -1, sim ? sim->cnt[5] : -1, sim ? (int)sim->fired : 0, sim ? (int)sim->budget_hit : 0);
				r.push_back(ctr);
			}
			if (sim && heavy) sim->call_end();
			sim_call_end();
		}
	} else if (name == "fault_abort") {     // fault_abort <target> <class> <k> [budget]
		IPhreeqc *p; int id; SimIPhreeqc *sim;
		if (resolve(client, a[1], B_CPP, p, id, sim) && sim) {
			int cls = -1;
			for (int i = 0; i <= M_ANY; i++) if (a[2] == g_class_names[i]) cls = i;
			sim->abort_class = cls; sim->abort_k = atol(a[3].c_str());
			if (a.size() > 4) sim->budget_msgs = atol(a[4].c_str());
			r.push_back("ok");
		} else r.push_back("nosim");
	} else if (name == "fault_alloc") {
		sim_self()->alloc_fail_at = atol(a[1].c_str());
		// sim_call_begin resets counters but keeps alloc_fail_at until sim_call_end
		r.push_back("ok");
	} else if (name == "fs_fault") {      // fs_fault <substr> <kind> <param> <nth_open>
		simfs_add_fault(a[1].c_str(), atoi(a[2].c_str()), atol(a[3].c_str()), atol(a[4].c_str()));
		r.push_back("ok");
	} else if (name == "fs_clear") { simfs_clear_faults(); r.push_back("ok");
	} else if (name == "fs_log") {
		int n = simfs_log_count();
		bool with_data = a.size() < 2 || a[1] != "nodata";
		for (int i = 0; i < n; i++) {
			const char *path, *mode, *wdata; int ok, err, cl, closed, ff; long wb, rb, so, sc; size_t wl;
			simfs_log_get(i, &path, &mode, &ok, &err, &wb, &rb, &wdata, &wl, &cl, &so, &sc, &closed, &ff);
			if (cl != client && sim_nclients() > 1) continue;
			char h[900];
			snprintf(h, sizeof h, "%s\x1f%s\x1f%d\x1f%d\x1f%ld\x1f%ld\x1f%d\x1f%d\x1f%ld\x1f%ld", path, mode, ok, err, wb, rb, closed, ff, so, sc);
			r.push_back(h);
			r.push_back(with_data ? std::string(wdata, wl) : std::string());
		}
	} else if (name == "fs_log_clear") { if (sim_nclients() <= 1) simfs_log_clear(); r.push_back("ok");
	} else if (name == "mkfile") {
		// Files that several clients prepare under the same name (include files of the shipped examples) have the same content:
		// an existing identical file is left alone, and a new one appears atomically (write aside, rename), so that no client can
		// read a half-written input file of the harness itself.
		std::string have;
		if (slurp(a[1], have) && have == a[2]) r.push_back("ok");
		else {
			char tmp[600];
			snprintf(tmp, sizeof tmp, "%s.tmp%d", a[1].c_str(), sim_self()->id);
			FILE *f = fopen(tmp, "wb");
			if (f) { fwrite(a[2].data(), 1, a[2].size(), f); fclose(f); r.push_back(rename(tmp, a[1].c_str()) == 0 ? "ok" : "fail"); } else r.push_back("fail");
		}
	} else if (name == "mkdir") { r.push_back(itos(mkdir(a[1].c_str(), 0777)));
	} else if (name == "readfile") {
		std::string s;
		if (slurp(a[1], s)) { r.push_back("ok"); r.push_back(s); } else r.push_back("missing");
	} else if (name == "ls") { list_files(".", "", r);
	} else if (name == "clock") {      // clock <now> <inc> <jump_at> <jump>
		SimClient *c = sim_self();
		c->clock_now = atol(a[1].c_str()); c->clock_inc = atol(a[2].c_str());
		c->clock_jump_at = a.size() > 3 ? atol(a[3].c_str()) : 0; c->clock_jump = a.size() > 4 ? atol(a[4].c_str()) : 0;
		r.push_back("ok");
	} else if (name == "gate") {       // gate <0|1> | gate read : rendezvous before sink calls for this client
		SimClient *c = sim_self();
		if (a.size() > 1 && a[1] == "read") { r.push_back(itos(c->gates_passed)); r.push_back(itos(c->gates_joint)); }
		else { c->gate_on = a.size() > 1 ? atoi(a[1].c_str()) : 1; r.push_back("ok"); }
	} else if (name == "fbuf") { g_fbuf = atoi(a[1].c_str()); if (g_fbuf < 1) g_fbuf = 1; r.push_back("ok");
	} else if (name == "buggify") {    // buggify <fail_first> <every> <phase> <mode> | buggify read
#ifdef IPHREEQC_VERIF
		if (a.size() > 1 && a[1] == "read") { r.push_back(itos(tl_bug_fired)); r.push_back(itos(tl_bug_calls)); }
		else {
			tl_bug_fail_first = atol(a[1].c_str()); tl_bug_every = atol(a[2].c_str()); tl_bug_phase = a.size() > 3 ? atol(a[3].c_str()) : 0;
			tl_bug_mode = a.size() > 4 ? atol(a[4].c_str()) : 1;
			tl_bug_calls = 0; tl_bug_fired = 0; tl_bug_selected = 0;
			r.push_back("ok");
		}
#else
		r.push_back("nohook");
#endif
	} else if (name == "engine") {     // engine <target> <what> args...
		IPhreeqc *p; int id; SimIPhreeqc *sim;
		if (resolve(client, a[1], B_CPP, p, id, sim) && sim) {
			Fields rest(a.begin() + 3, a.end());
			try { r.push_back(sim->engine_op(a[2], rest)); }
			catch (const std::exception &e) { r.push_back(std::string("EXC:") + e.what()); }
			catch (...) { r.push_back("EXC:unknown"); }
		} else r.push_back("nosim");
	} else if (name == "signal") {     // signal <flag> <slot>: publishes the id of one of this client's (destroyed) slots
		std::map<int, Slot>::iterator it = g_slots[client].find(atoi(a[2].c_str()));
		sim_flag_set(atoi(a[1].c_str()), it == g_slots[client].end() ? -1 : it->second.id);
		r.push_back("ok");
	} else if (name == "await") {      // await <flag>: waits for another client's signal, keeps the id for targets "f<flag>"
		long v = sim_flag_wait(atoi(a[1].c_str()));
		tl_imported[atoi(a[1].c_str()) & 63] = v;
		r.push_back(v >= 0 ? "received" : "nobody");
	} else if (name == "heap_pad") {   // shifts the heap layout of this process for the rest of its life (repeatability oracle)
		volatile char *pad = (volatile char *)malloc((size_t)atol(a[1].c_str()));
		if (pad) pad[0] = 1;
		r.push_back("ok");
	} else if (name == "yield") { sim_switch_point(SW_API); r.push_back("ok");
	} else r.push_back("\x01" "BADOP");
	sim_switch_point(SW_API);
	long s1 = sim_next_seq();
	emit(client, opidx, s0, s1, r);
}

static void client_body(int client)
{
	SimClient *c = sim_self();
	c->clock_now = 1000000; c->clock_inc = 0;
	g_fbuf = 400;
#ifdef IPHREEQC_VERIF
	tl_bug_fail_first = 0;
#endif
	for (size_t i = 0; i < g_ops[client].size(); i++) run_op(client, (int)i, g_ops[client][i]);
	// leftover instances of this client are destroyed so that plans do not leak into each other
	for (std::map<int, Slot>::iterator it = g_slots[client].begin(); it != g_slots[client].end(); ++it) {
		Slot &s = it->second;
		if (!s.live) continue;
		try { if (s.kind == 0) delete s.p; else ::DestroyIPhreeqc(s.id); } catch (...) {}
		s.live = false;
	}
	g_slots[client].clear();
}

// ---------------------------------------------------------------------------------------------
#include "dumper.h"
#include "StorageBin.h"
#include "Serializer.h"
#include "Dictionary.h"
std::string SimIPhreeqc::engine_op(const std::string &what, const Fields &args)
{
	Phreeqc *ph = this->PhreeqcPtr;
	if (what == "dump_raw") {     // RAW text of everything, straight from the engine (no DUMP keyword involved)
		std::ostringstream oss;
		cxxStorageBin sb(this);
		ph->phreeqc2cxxStorageBin(sb);
		sb.dump_raw(oss, 0);
		return oss.str();
	}
	if (what == "storagebin_roundtrip") {   // engine -> storage bin -> engine
		cxxStorageBin sb(this);
		ph->phreeqc2cxxStorageBin(sb);
		ph->cxxStorageBin2phreeqc(sb);
		return "ok";
	}
	if (what == "storagebin_cell_roundtrip") {
		int n = args.size() ? atoi(args[0].c_str()) : 1;
		cxxStorageBin sb(this);
		ph->phreeqc2cxxStorageBin(sb, n);
		ph->cxxStorageBin2phreeqc(sb, n);
		return "ok";
	}
	if (what == "serialize_roundtrip") {    // cells n..m -> Serializer -> Deserialize into the same engine
		int n = args.size() ? atoi(args[0].c_str()) : 1;
		int m = args.size() > 1 ? atoi(args[1].c_str()) : n;
		Serializer ser(this);
		ser.Serialize(*ph, n, m, true, true);
		std::string words = ser.GetDictionary().GetDictionaryOss().str();
		Dictionary dict(words);
		std::vector<int> ints = ser.GetInts();
		std::vector<double> dbls = ser.GetDoubles();
		Serializer de(this);
		de.Deserialize(*ph, dict, ints, dbls);
		return "ok ints=" + itos((long)ints.size()) + " doubles=" + itos((long)dbls.size());
	}
	if (what == "copy_engine_dump") {       // Phreeqc copy construction, RAW dump of the copy
		Phreeqc copy(*ph);
		std::ostringstream oss;
		cxxStorageBin sb(this);
		copy.phreeqc2cxxStorageBin(sb);
		sb.dump_raw(oss, 0);
		return oss.str();
	}
	return "\x01UNSUPPORTED";
}

// ---------------------------------------------------------------------------------------------
static bool read_line(std::string &s)
{
	s.clear();
	int c;
	while ((c = getchar()) != EOF) { if (c == '\n') return true; s += (char)c; }
	return !s.empty();
}
static bool read_blob(std::string &s)
{
	std::string l;
	if (!read_line(l)) return false;
	size_t n = (size_t)atol(l.c_str());
	s.resize(n);
	if (n && fread(&s[0], 1, n, stdin) != n) return false;
	getchar();
	return true;
}

int main(int argc, char **argv)
{
	(void)argc; (void)argv;
	setvbuf(stdout, 0, _IOFBF, 1 << 16);
#ifdef IPHREEQC_VERIF
	iphreeqc_verif_buggify = buggify_cb;    // the callback only consults thread-local state set by the plan
#endif
	std::string line;
	static std::vector<long> choices;
	while (read_line(line)) {
		if (line == "QUIT") break;
		if (line.compare(0, 5, "PLAN ") != 0) { printf("FATAL bad header %s\n", line.c_str()); fflush(stdout); return 3; }
		int nclients = 1, preempt = 0; long max_steps = 0, plimit = -1; unsigned long long seed = 0;
		char sandbox[1024] = "";
		sscanf(line.c_str() + 5, "%d %d %ld %llu %ld %1023s", &nclients, &preempt, &max_steps, &seed, &plimit, sandbox);
		for (int i = 0; i < SIM_MAX_CLIENTS; i++) { g_ops[i].clear(); g_out[i].clear(); }
		choices.clear();
		int cur = 0;
		bool ok = true;
		while ((ok = read_line(line))) {
			if (line == "E") break;
			if (line[0] == 'C') cur = atoi(line.c_str() + 2);
			else if (line[0] == 'S') { // explicit schedule choices: "S n1 n2 ..."
				std::istringstream iss(line.substr(2)); long v; while (iss >> v) choices.push_back(v);
			} else if (line[0] == 'O') {
				int n = atoi(line.c_str() + 2);
				Op op;
				for (int i = 0; i < n; i++) { std::string b; if (!read_blob(b)) { ok = false; break; } op.a.push_back(b); }
				if (!ok) break;
				if (cur >= 0 && cur < SIM_MAX_CLIENTS && !op.a.empty()) g_ops[cur].push_back(op);
			}
		}
		if (!ok) break;
		g_sandbox = sandbox;
		if (!g_sandbox.empty()) {
			mkdir(g_sandbox.c_str(), 0777);
			rm_rf_contents(g_sandbox);
			if (chdir(g_sandbox.c_str())) { printf("FATAL chdir %s\n", g_sandbox.c_str()); fflush(stdout); return 3; }
		}
		g_tsan_reports = 0;
		simfs_reset();
		sim_plan_reset(nclients, choices.empty() ? 0 : &choices[0], (long)choices.size(), preempt, max_steps, seed);
		sim_set_preempt_limit(plimit);
		sim_run_clients(client_body);
		for (int i = 0; i < nclients && i < SIM_MAX_CLIENTS; i++) fwrite(g_out[i].data(), 1, g_out[i].size(), stdout);
		size_t evlen; const char *ev = sim_events(&evlen);
		printf("EV %zu\n", evlen);
		fwrite(ev, 1, evlen, stdout);
		printf("\n");
		long sw[SW_KINDS] = {0}, swt[SW_KINDS] = {0}, blocked = 0;
		for (int i = 0; i < sim_nclients(); i++) {
			SimClient *c = sim_client(i);
			for (int k = 0; k < SW_KINDS; k++) { sw[k] += c->sw_seen[k]; swt[k] += c->sw_taken[k]; }
			blocked += c->blocked_count;
		}
		printf("DONE hash=%016llx steps=%ld budget=%d tsan=%ld inside=%ld blocked=%ld seen=%ld,%ld,%ld,%ld,%ld taken=%ld,%ld,%ld,%ld,%ld ff=%ld,%ld,%ld,%ld,%ld,%ld,%ld,%ld\n",
		       (unsigned long long)sim_sched_hash(), sim_steps(), sim_budget_exceeded(), g_tsan_reports, sim_inside_preemptions(), blocked,
		       sw[0], sw[1], sw[2], sw[3], sw[4], swt[0], swt[1], swt[2], swt[3], swt[4],
		       simfs_fault_fired(1), simfs_fault_fired(2), simfs_fault_fired(3), simfs_fault_fired(4), simfs_fault_fired(5),
		       simfs_fault_fired(6), simfs_fault_fired(7), simfs_fault_fired(8));
		fflush(stdout);
	}
	sim_real_exit(0);
	return 0;
}
