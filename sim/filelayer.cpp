// Simulated file layer: libc interposition inside the executor executable.  libstdc++'s
// basic_filebuf goes through fopen64 / read / write / writev / fclose (probed), so defining
// these symbols here puts every file the library touches behind a seam the plan controls.
// Files are real files in the plan's sandbox directory; what is simulated is which calls
// fail and how much each returns.  Uninstrumented translation unit (see sched.cpp).
#ifndef _GNU_SOURCE
#define _GNU_SOURCE
#endif
#include "sim.h"
#include <dlfcn.h>
#include <errno.h>
#include <stdio.h>
#include <stdlib.h>
#include <string.h>
#include <unistd.h>
#include <sys/uio.h>

extern "C" void *__real_malloc(size_t);
extern "C" void *__real_realloc(void *, size_t);
extern "C" void *__real_calloc(size_t, size_t);

typedef FILE *(*fopen_t)(const char *, const char *);
typedef int (*fclose_t)(FILE *);
typedef ssize_t (*read_t)(int, void *, size_t);
typedef ssize_t (*write_t)(int, const void *, size_t);
typedef ssize_t (*writev_t)(int, const struct iovec *, int);

static fopen_t  real_fopen64, real_fopen;
static fclose_t real_fclose;
static read_t   real_read;
static write_t  real_write;
static writev_t real_writev;

static void init_real(void)
{
	if (real_read) return;
	real_fopen64 = (fopen_t)dlsym(RTLD_NEXT, "fopen64");
	real_fopen   = (fopen_t)dlsym(RTLD_NEXT, "fopen");
	real_fclose  = (fclose_t)dlsym(RTLD_NEXT, "fclose");
	real_write   = (write_t)dlsym(RTLD_NEXT, "write");
	real_writev  = (writev_t)dlsym(RTLD_NEXT, "writev");
	real_read    = (read_t)dlsym(RTLD_NEXT, "read");
}

struct Fault { char substr[256]; int kind; long param; long nth_open; long matches; };
#define MAX_FAULTS 16
static Fault g_faults[MAX_FAULTS];
static int   g_nfaults = 0;
static long  g_fired[16];

struct Entry {
	char  path[512];
	char  mode[8];
	int   ok, err, client, closed, faults_fired;
	long  wbytes, rbytes, seq_open, seq_close, nops;
	char *wdata; size_t wlen, wcap;
	// attached faults
	long  enospc_at, write_chunk, eintr_at, read_chunk, eio_at, eof_at; int close_fail; int eintr_done;
};
#define MAX_LOG 4096
static Entry *g_log[MAX_LOG];
static int    g_nlog = 0;
#define MAX_FD 4096
static Entry *g_fd[MAX_FD];

extern "C" void simfs_reset(void)
{
	simfs_log_clear();
	g_nfaults = 0;
	memset(g_fired, 0, sizeof g_fired);
}
extern "C" void simfs_clear_faults(void) { g_nfaults = 0; }
extern "C" void simfs_add_fault(const char *s, int kind, long param, long nth_open)
{
	if (g_nfaults == MAX_FAULTS) return;
	Fault *f = &g_faults[g_nfaults++];
	snprintf(f->substr, sizeof f->substr, "%s", s);
	f->kind = kind; f->param = param; f->nth_open = nth_open; f->matches = 0;
}
extern "C" long simfs_fault_fired(int kind) { return (kind >= 0 && kind < 16) ? g_fired[kind] : 0; }
extern "C" int simfs_log_count(void) { return g_nlog; }
extern "C" void simfs_log_clear(void)
{
	for (int i = 0; i < g_nlog; i++) {
		// entries of still-open descriptors stay reachable through g_fd until closed
		if (g_log[i]->closed || !g_log[i]->ok) { free(g_log[i]->wdata); free(g_log[i]); }
		else g_log[i]->client = -99;  // orphan: freed at close
	}
	g_nlog = 0;
}
extern "C" void simfs_log_get(int i, const char **path, const char **mode, int *ok, int *err, long *wbytes, long *rbytes,
                              const char **wdata, size_t *wlen, int *client, long *seq_open, long *seq_close, int *closed, int *ff)
{
	Entry *e = g_log[i];
	*path = e->path; *mode = e->mode; *ok = e->ok; *err = e->err; *wbytes = e->wbytes; *rbytes = e->rbytes;
	*wdata = e->wdata ? e->wdata : ""; *wlen = e->wlen; *client = e->client; *seq_open = e->seq_open;
	*seq_close = e->seq_close; *closed = e->closed; *ff = e->faults_fired;
}

static void fired(Entry *e, int kind, const char *what, long a)
{
	g_fired[kind]++;
	if (e) e->faults_fired++;
	sim_event("file_fault %s %s %ld", what, e ? e->path : "?", a);
}

static FILE *do_fopen(fopen_t real, const char *path, const char *mode)
{
	init_real();
	SimClient *c = sim_self();
	if (!c->in_call || !path) return real(path, mode);
	c->n_fileop++;
	sim_switch_point(SW_FILE);
	Entry *e = (Entry *)__real_calloc(1, sizeof(Entry));
	snprintf(e->path, sizeof e->path, "%s", path);
	snprintf(e->mode, sizeof e->mode, "%s", mode ? mode : "");
	e->client = c->id;
	e->seq_open = sim_next_seq();
	e->enospc_at = e->eio_at = e->eof_at = -1;
	int fail_errno = 0;
	for (int i = 0; i < g_nfaults; i++) {
		Fault *f = &g_faults[i];
		if (!strstr(path, f->substr)) continue;
		f->matches++;
		if (f->nth_open && f->matches != f->nth_open) continue;
		switch (f->kind) {
		case FF_OPEN_FAIL:    fail_errno = (int)f->param ? (int)f->param : EACCES; break;
		case FF_WRITE_ENOSPC: e->enospc_at = f->param; break;
		case FF_WRITE_SHORT:  e->write_chunk = f->param > 0 ? f->param : 1; break;
		case FF_EINTR:        e->eintr_at = f->param > 0 ? f->param : 1; break;
		case FF_READ_SHORT:   e->read_chunk = f->param > 0 ? f->param : 1; break;
		case FF_READ_EIO:     e->eio_at = f->param; break;
		case FF_READ_EOF:     e->eof_at = f->param; break;
		case FF_CLOSE_FAIL:   e->close_fail = 1; break;
		}
	}
	if (g_nlog < MAX_LOG) g_log[g_nlog++] = e;
	if (fail_errno) {
		e->ok = 0; e->err = fail_errno; e->closed = 1;
		fired(e, FF_OPEN_FAIL, "open_fail", fail_errno);
		if (g_nlog == MAX_LOG) free(e);
		errno = fail_errno;
		return 0;
	}
	FILE *fp = real(path, mode);
	if (!fp) { e->ok = 0; e->err = errno; e->closed = 1; return 0; }
	e->ok = 1;
	int fd = fileno(fp);
	if (fd >= 0 && fd < MAX_FD) g_fd[fd] = e;
	return fp;
}

extern "C" FILE *fopen64(const char *path, const char *mode) { init_real(); return do_fopen(real_fopen64, path, mode); }
extern "C" FILE *fopen(const char *path, const char *mode) { init_real(); return do_fopen(real_fopen, path, mode); }

extern "C" int fclose(FILE *fp)
{
	init_real();
	int fd = fp ? fileno(fp) : -1;
	Entry *e = (fd >= 0 && fd < MAX_FD) ? g_fd[fd] : 0;
	if (!e) return real_fclose(fp);
	g_fd[fd] = 0;
	SimClient *c = sim_self();
	if (c->in_call) { c->n_fileop++; sim_switch_point(SW_FILE); }
	int r = real_fclose(fp);
	e->closed = 1;
	e->seq_close = sim_next_seq();
	if (e->close_fail) { fired(e, FF_CLOSE_FAIL, "close_fail", 0); r = EOF; errno = EIO; }
	if (e->client == -99) { free(e->wdata); free(e); }
	return r;
}

static void capture(Entry *e, const void *buf, size_t n)
{
	if (e->wlen + n + 1 > e->wcap) {
		size_t cap = (e->wcap ? e->wcap * 2 : 4096) + n;
		if (cap > (64u << 20)) return;   // stop capturing beyond 64 MB; wbytes still counts
		e->wdata = (char *)__real_realloc(e->wdata, cap);
		e->wcap = cap;
	}
	memcpy(e->wdata + e->wlen, buf, n);
	e->wlen += n;
	e->wdata[e->wlen] = 0;
}

static ssize_t sim_write(Entry *e, int fd, const void *buf, size_t n)
{
	SimClient *c = sim_self();
	if (c->in_call) { c->n_fileop++; sim_switch_point(SW_FILE); }
	e->nops++;
	if (e->eintr_at && !e->eintr_done && e->nops >= e->eintr_at) {
		e->eintr_done = 1; fired(e, FF_EINTR, "eintr_write", e->nops); errno = EINTR; return -1;
	}
	size_t want = n;
	if (e->write_chunk && (long)want > e->write_chunk) { want = e->write_chunk; fired(e, FF_WRITE_SHORT, "write_short", want); }
	if (e->enospc_at >= 0 && e->wbytes + (long)want > e->enospc_at) {
		long room = e->enospc_at - e->wbytes;
		if (room <= 0) { fired(e, FF_WRITE_ENOSPC, "write_enospc", e->wbytes); errno = ENOSPC; return -1; }
		want = room;
	}
	ssize_t r = real_write(fd, buf, want);
	if (r > 0) { capture(e, buf, r); e->wbytes += r; }
	return r;
}

extern "C" ssize_t write(int fd, const void *buf, size_t n)
{
	init_real();
	Entry *e = (fd >= 0 && fd < MAX_FD) ? g_fd[fd] : 0;
	if (!e) return real_write(fd, buf, n);
	return sim_write(e, fd, buf, n);
}

extern "C" ssize_t writev(int fd, const struct iovec *iov, int cnt)
{
	init_real();
	Entry *e = (fd >= 0 && fd < MAX_FD) ? g_fd[fd] : 0;
	if (!e) return real_writev(fd, iov, cnt);
	// serialise into plain writes so that every fault kind applies uniformly
	ssize_t total = 0;
	for (int i = 0; i < cnt; i++) {
		if (iov[i].iov_len == 0) continue;
		ssize_t r = sim_write(e, fd, iov[i].iov_base, iov[i].iov_len);
		if (r < 0) return total ? total : -1;
		total += r;
		if ((size_t)r < iov[i].iov_len) return total;
	}
	return total;
}

extern "C" ssize_t read(int fd, void *buf, size_t n)
{
	init_real();
	Entry *e = (fd >= 0 && fd < MAX_FD) ? g_fd[fd] : 0;
	if (!e) return real_read(fd, buf, n);
	SimClient *c = sim_self();
	if (c->in_call) { c->n_fileop++; sim_switch_point(SW_FILE); }
	e->nops++;
	if (e->eintr_at && !e->eintr_done && e->nops >= e->eintr_at) {
		e->eintr_done = 1; fired(e, FF_EINTR, "eintr_read", e->nops); errno = EINTR; return -1;
	}
	size_t want = n;
	if (e->read_chunk && (long)want > e->read_chunk) { want = e->read_chunk; g_fired[FF_READ_SHORT]++; e->faults_fired++; }
	if (e->eio_at >= 0) {
		if (e->rbytes >= e->eio_at) { fired(e, FF_READ_EIO, "read_eio", e->rbytes); errno = EIO; return -1; }
		if (e->rbytes + (long)want > e->eio_at) want = e->eio_at - e->rbytes;
	}
	if (e->eof_at >= 0) {
		if (e->rbytes >= e->eof_at) { fired(e, FF_READ_EOF, "read_eof", e->rbytes); return 0; }
		if (e->rbytes + (long)want > e->eof_at) want = e->eof_at - e->rbytes;
	}
	ssize_t r = real_read(fd, buf, want);
	if (r > 0) e->rbytes += r;
	return r;
}
