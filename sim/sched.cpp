// Simulator core: seeded baton scheduler over real pthreads, simulated clock, failing
// allocations, exit trap, event log.
//
// This translation unit is compiled WITHOUT any sanitizer.  The baton is handed over with
// relaxed atomics and the raw futex system call, which ThreadSanitizer gives no
// happens-before meaning: the serialisation imposed by the scheduler therefore does not
// hide a missing lock in the library from TSan, while the library's own pthread_mutex
// calls still reach TSan's interceptors through __real_pthread_mutex_*.
#include "sim.h"
#include <errno.h>
#include <pthread.h>
#include <stdarg.h>
#include <stdio.h>
#include <stdlib.h>
#include <string.h>
#include <time.h>
#include <unistd.h>
#include <sys/syscall.h>
#include <linux/futex.h>

extern "C" {
int   __real_pthread_mutex_lock(pthread_mutex_t *);
int   __real_pthread_mutex_unlock(pthread_mutex_t *);
void *__real_malloc(size_t);
void *__real_calloc(size_t, size_t);
void *__real_realloc(void *, size_t);
void  __real_exit(int) __attribute__((noreturn));
}

static SimClient g_clients[SIM_MAX_CLIENTS];
static SimClient g_main;                    // the executor's main thread when client threads run
static __thread SimClient *tl_self = 0;

static int      g_n = 1;
static int      g_active = 0;
static int      g_preempt_pct = 0;
static long     g_max_steps = 0, g_steps = 0, g_preemptions = 0, g_preempt_limit = -1;
static long     g_inside_preemptions = 0;
static const long *g_choices = 0;
static long     g_nchoices = 0, g_choice_pos = 0;
static uint64_t g_rng = 0, g_hash = 0;
static int      g_deadlock = 0, g_budget = 0;
static long     g_seq = 0;
static volatile int g_main_wake = 0;

static volatile int  g_flag[64];
static volatile long g_flag_value[64];

#define MAX_MUTEX 16
static pthread_mutex_t *g_mutex_ptr[MAX_MUTEX];
static int      g_mutex_owner[MAX_MUTEX];
static int      g_nmutex = 0;

// ------------------------------------------------------------------------------------------
// The event buffer is one anonymous mapping made by the main thread; entries are copied with a plain
// byte loop.  No intercepted libc routine (memcpy, realloc) ever touches it from a client thread, so
// ThreadSanitizer has nothing to say about the simulator's own bookkeeping.
#include <sys/mman.h>
static char  *g_ev = 0;
static size_t g_ev_len = 0, g_ev_cap = 0;
static long   g_ev_dropped = 0;

static void ev_init(void)
{
	if (g_ev) return;
	g_ev_cap = (size_t)256 << 20;
	void *p = mmap(0, g_ev_cap, PROT_READ | PROT_WRITE, MAP_PRIVATE | MAP_ANONYMOUS | MAP_NORESERVE, -1, 0);
	if (p == MAP_FAILED) { g_ev_cap = 0; return; }
	g_ev = (char *)p;
}

extern "C" void sim_event(const char *fmt, ...)
{
	char buf[512];
	SimClient *c = sim_self();
	int n = snprintf(buf, sizeof buf, "%ld c%d ", ++g_seq, c->id);
	va_list ap;
	va_start(ap, fmt);
	n += vsnprintf(buf + n, sizeof buf - n - 2, fmt, ap);
	va_end(ap);
	if (n > (int)sizeof buf - 2) n = sizeof buf - 2;
	buf[n++] = '\n';
	if (!g_ev || g_ev_len + n + 1 > g_ev_cap) { g_ev_dropped++; return; }
	volatile char *d = g_ev + g_ev_len;
	for (int i = 0; i < n; i++) d[i] = buf[i];
	d[n] = 0;
	g_ev_len += n;
}
extern "C" const char *sim_events(size_t *len) { *len = g_ev_len; return g_ev ? g_ev : ""; }
extern "C" void sim_events_clear(void) { g_ev_len = 0; if (g_ev) g_ev[0] = 0; }
extern "C" long sim_next_seq(void) { return ++g_seq; }

// ------------------------------------------------------------------------------------------
static inline uint64_t splitmix(uint64_t *s)
{
	uint64_t z = (*s += 0x9E3779B97F4A7C15ull);
	z = (z ^ (z >> 30)) * 0xBF58476D1CE4E5B9ull;
	z = (z ^ (z >> 27)) * 0x94D049BB133111EBull;
	return z ^ (z >> 31);
}
static inline void hash_mix(uint64_t v) { g_hash = (g_hash ^ v) * 0x100000001B3ull; }

static void fwait(volatile int *w)
{
	while (__atomic_load_n(w, __ATOMIC_RELAXED) == 0)
		syscall(SYS_futex, w, FUTEX_WAIT_PRIVATE, 0, NULL, NULL, 0);
	__atomic_store_n(w, 0, __ATOMIC_RELAXED);
}
static void fwake(volatile int *w)
{
	__atomic_store_n(w, 1, __ATOMIC_RELAXED);
	syscall(SYS_futex, w, FUTEX_WAKE_PRIVATE, 1, NULL, NULL, 0);
}

static void fatal(const char *what)
{
	char buf[256];
	int n = snprintf(buf, sizeof buf, "\nFATAL %s\n", what);
	fflush(stdout);
	if (write(1, buf, n) < 0) {}
	_exit(79);
}

extern "C" SimClient *sim_self(void)
{
	if (tl_self) return tl_self;
	return g_active ? &g_main : &g_clients[0];
}
extern "C" int sim_nclients(void) { return g_n; }
extern "C" SimClient *sim_client(int i) { return &g_clients[i]; }
extern "C" long sim_steps(void) { return g_steps; }
extern "C" uint64_t sim_sched_hash(void) { return g_hash; }
extern "C" int sim_deadlocked(void) { return g_deadlock; }
extern "C" int sim_budget_exceeded(void) { return g_budget; }
extern "C" long sim_inside_preemptions(void) { return g_inside_preemptions; }

extern "C" void sim_plan_reset(int nclients, const long *choices, long nchoices, int preempt_pct, long max_steps, uint64_t seed)
{
	g_n = nclients < 1 ? 1 : (nclients > SIM_MAX_CLIENTS ? SIM_MAX_CLIENTS : nclients);
	memset(g_clients, 0, sizeof g_clients);
	for (int i = 0; i < SIM_MAX_CLIENTS; i++) { g_clients[i].id = i; g_clients[i].blocked_on = -1; }
	memset(&g_main, 0, sizeof g_main);
	g_main.id = -1; g_main.blocked_on = -1;
	g_choices = choices; g_nchoices = nchoices; g_choice_pos = 0;
	g_preempt_pct = preempt_pct; g_max_steps = max_steps; g_steps = 0; g_preemptions = 0;
	g_inside_preemptions = 0;
	g_preempt_limit = -1;
	g_rng = seed; g_hash = 0xcbf29ce484222325ull; g_deadlock = 0; g_budget = 0; g_seq = 0;
	g_nmutex = 0;
	g_active = 0;
	for (int i = 0; i < 64; i++) { g_flag[i] = 0; g_flag_value[i] = -1; }
	ev_init();
	sim_events_clear();
}
extern "C" void sim_set_preempt_limit(long n) { g_preempt_limit = n; }

static int enabled(SimClient *c)
{
	if (!c->alive) return 0;
	if (c->gate_wait) return 0;
	if (c->blocked_on >= 0 && g_mutex_owner[c->blocked_on] != -1) return 0;
	return 1;
}

// hand the baton to client `to` and sleep until it comes back
static void handoff(SimClient *me, SimClient *to)
{
	fwake(&to->wake);
	if (me) fwait(&me->wake);
}

// pick the next client; `must_leave`: the caller cannot continue (blocked or finished)
static SimClient *pick(SimClient *me, int must_leave, int kind)
{
	SimClient *en[SIM_MAX_CLIENTS];
	int n = 0;
	for (int i = 0; i < g_n; i++) {
		if (must_leave && &g_clients[i] == me) continue;
		if (enabled(&g_clients[i])) en[n++] = &g_clients[i];
	}
	if (n == 0) return 0;
	uint64_t r;
	if (g_choice_pos < g_nchoices) r = (uint64_t)g_choices[g_choice_pos++];
	else r = splitmix(&g_rng) >> 8;
	if (!must_leave) {
		if (g_budget) return me;
		if (g_preempt_limit >= 0 && g_preemptions >= g_preempt_limit) return me;
		if ((int)(r % 100) >= g_preempt_pct) return me;
		r /= 100;
	}
	SimClient *to = en[r % n];
	hash_mix(((uint64_t)kind << 8) | (uint64_t)(to->id + 1));
	return to;
}

extern "C" void sim_switch_point(int kind)
{
	if (!g_active) return;
	SimClient *me = tl_self;
	if (!me || me == &g_main) return;
	me->sw_seen[kind]++;
	if (++g_steps > g_max_steps && g_max_steps > 0) g_budget = 1;
	SimClient *to = pick(me, 0, kind);
	if (!to || to == me) return;
	me->sw_taken[kind]++;
	g_preemptions++;
	if (me->in_call) {
		for (int i = 0; i < g_n; i++)
			if (&g_clients[i] != me && g_clients[i].alive && g_clients[i].in_call) { g_inside_preemptions++; break; }
	}
	handoff(me, to);
}

static int release_gates(void)
{
	int n = 0;
	for (int i = 0; i < g_n; i++) if (g_clients[i].gate_wait) { g_clients[i].gate_wait = 0; n++; }
	return n;
}

// Rendezvous before a sink call (only for clients that asked for it): the caller parks until no other client can run that
// is not itself parked at a gate; the last one to arrive releases all of them, so that their sink calls follow each other
// with nothing in between.  Invisible to ThreadSanitizer like every other hand-over of the baton.
extern "C" void sim_gate(void)
{
	SimClient *me = tl_self;
	if (!g_active || !me || me == &g_main || !me->gate_on || g_budget) return;
	me->gates_passed++;
	me->gate_wait = 1;
	for (;;) {
		if (++g_steps > g_max_steps && g_max_steps > 0) { g_budget = 1; me->gate_wait = 0; release_gates(); return; }
		SimClient *to = pick(me, 1, SW_API);       // an enabled client that is not parked at a gate
		if (!to) {                                // everybody else is parked, blocked or finished: open the gate
			me->gate_wait = 0;
			if (release_gates() > 0) me->gates_joint++;
			return;
		}
		handoff(me, to);
		if (!me->gate_wait) { me->gates_joint++; return; }   // released by the last arrival
	}
}

static void leave(SimClient *me, int kind)   // blocked or finished: somebody else must run
{
	SimClient *to = pick(me, 1, kind);
	if (!to && release_gates() > 0) to = pick(me, 1, kind);   // only gate-waiters are left: let them go on
	if (!to) {
		int alive = 0;
		for (int i = 0; i < g_n; i++) if (g_clients[i].alive) alive++;
		if (alive == 0) { fwake(&g_main_wake); return; }
		g_deadlock = 1;
		fatal("deadlock: no enabled client while some are alive");
	}
	if (me->alive) handoff(me, to);
	else fwake(&to->wake);
}

static int mutex_index(pthread_mutex_t *m)
{
	for (int i = 0; i < g_nmutex; i++) if (g_mutex_ptr[i] == m) return i;
	if (g_nmutex == MAX_MUTEX) fatal("mutex table full");
	g_mutex_ptr[g_nmutex] = m; g_mutex_owner[g_nmutex] = -1;
	return g_nmutex++;
}

extern "C" int __wrap_pthread_mutex_lock(pthread_mutex_t *m)
{
	SimClient *me = tl_self;
	if (!g_active || !me || me == &g_main) return __real_pthread_mutex_lock(m);
	me->n_mutex++;
	sim_switch_point(SW_MUTEX);
	int idx = mutex_index(m);
	while (g_mutex_owner[idx] != -1) {
		if (g_mutex_owner[idx] == me->id) fatal("mutex relocked by its owner");
		me->blocked_on = idx;
		me->blocked_count++;
		leave(me, SW_MUTEX);
	}
	me->blocked_on = -1;
	g_mutex_owner[idx] = me->id;
	int r = __real_pthread_mutex_lock(m);
	sim_switch_point(SW_MUTEX);
	return r;
}

extern "C" int __wrap_pthread_mutex_unlock(pthread_mutex_t *m)
{
	SimClient *me = tl_self;
	if (!g_active || !me || me == &g_main) return __real_pthread_mutex_unlock(m);
	int idx = mutex_index(m);
	if (g_mutex_owner[idx] != me->id) {
		// unlock without lock (see DESIGN fact 2): recorded, passed on to the real function
		sim_event("mutex_unlock_without_lock idx=%d owner=%d", idx, g_mutex_owner[idx]);
		return __real_pthread_mutex_unlock(m);
	}
	int r = __real_pthread_mutex_unlock(m);
	g_mutex_owner[idx] = -1;
	sim_switch_point(SW_MUTEX);
	return r;
}

// ------------------------------------------------------------------------------------------
// Cross-client hand-over of a value (an instance id that has just been destroyed) without any
// synchronisation that ThreadSanitizer could see: relaxed atomics in this uninstrumented unit.
extern "C" void sim_flag_set(int i, long value)
{
	__atomic_store_n(&g_flag_value[i & 63], value, __ATOMIC_RELAXED);
	__atomic_store_n(&g_flag[i & 63], 1, __ATOMIC_RELAXED);
}
// waits (yielding the baton) until flag i is set; returns its value, or -1 when nobody can set it (single client, or every
// other client finished or is blocked)
extern "C" long sim_flag_wait(int i)
{
	SimClient *me = tl_self;
	for (;;) {
		if (__atomic_load_n(&g_flag[i & 63], __ATOMIC_RELAXED)) return __atomic_load_n(&g_flag_value[i & 63], __ATOMIC_RELAXED);
		if (!g_active || !me || me == &g_main) return -1;
		if (++g_steps > g_max_steps && g_max_steps > 0) { g_budget = 1; return -1; }
		SimClient *to = pick(me, 1, SW_API);
		if (!to && release_gates() > 0) to = pick(me, 1, SW_API);
		if (!to) return -1;
		handoff(me, to);
	}
}

struct ThreadArg { void (*body)(int); int id; };
static void *client_main(void *p)
{
	ThreadArg *a = (ThreadArg *)p;
	SimClient *me = &g_clients[a->id];
	tl_self = me;
	fwait(&me->wake);
	a->body(a->id);
	me->alive = 0;
	me->in_call = 0;
	leave(me, SW_API);
	return 0;
}

extern "C" void sim_run_clients(void (*body)(int))
{
	if (g_n <= 1) {
		tl_self = &g_clients[0];
		g_clients[0].alive = 1;
		body(0);
		g_clients[0].alive = 0;
		tl_self = 0;
		return;
	}
	pthread_t th[SIM_MAX_CLIENTS];
	ThreadArg args[SIM_MAX_CLIENTS];
	// clocks and fault settings were put into g_clients[] by the executor before this call
	g_active = 1;
	tl_self = &g_main;
	for (int i = 0; i < g_n; i++) { g_clients[i].alive = 1; g_clients[i].wake = 0; }
	g_main_wake = 0;
	for (int i = 0; i < g_n; i++) {
		args[i].body = body; args[i].id = i;
		pthread_create(&th[i], 0, client_main, &args[i]);
	}
	SimClient *first = pick(0, 1, SW_API);
	fwake(&first->wake);
	fwait(&g_main_wake);
	for (int i = 0; i < g_n; i++) pthread_join(th[i], 0);
	g_active = 0;
	tl_self = 0;
}

// ------------------------------------------------------------------------------------------
extern "C" void sim_call_begin(void)
{
	SimClient *c = sim_self();
	c->n_alloc = c->n_clock = c->n_fileop = c->n_mutex = 0;
	c->alloc_failed = 0;
	c->in_call = 1;
}
extern "C" void sim_call_end(void)
{
	SimClient *c = sim_self();
	c->in_call = 0;
	c->alloc_fail_at = 0;
}

extern "C" clock_t __wrap_clock(void)
{
	SimClient *c = sim_self();
	c->n_clock++;
	c->clock_reads_total++;
	c->clock_now += c->clock_inc;
	if (c->clock_jump_at && c->clock_reads_total == c->clock_jump_at) {
		c->clock_now += c->clock_jump;
		sim_event("clock_jump %ld", c->clock_jump);
	}
	if (c->in_call) sim_switch_point(SW_CLOCK);
	return (clock_t)c->clock_now;
}

static inline int alloc_fault(SimClient *c, const char *what, size_t n)
{
	c->n_alloc++;
	if (c->alloc_fail_at && c->n_alloc == c->alloc_fail_at) {
		c->alloc_failed++;
		sim_event("alloc_null %s k=%ld size=%zu", what, c->n_alloc, n);
		errno = ENOMEM;
		return 1;
	}
	return 0;
}
extern "C" void *__wrap_malloc(size_t n)
{
	SimClient *c = tl_self;
	if (c && c->in_call) {
		if (alloc_fault(c, "malloc", n)) return 0;
		sim_switch_point(SW_ALLOC);
	}
	return __real_malloc(n);
}
extern "C" void *__wrap_calloc(size_t a, size_t b)
{
	SimClient *c = tl_self;
	if (c && c->in_call) {
		if (alloc_fault(c, "calloc", a * b)) return 0;
		sim_switch_point(SW_ALLOC);
	}
	return __real_calloc(a, b);
}
extern "C" void *__wrap_realloc(void *p, size_t n)
{
	SimClient *c = tl_self;
	if (c && c->in_call) {
		if (alloc_fault(c, "realloc", n)) return 0;
		sim_switch_point(SW_ALLOC);
	}
	return __real_realloc(p, n);
}

extern "C" void __wrap_exit(int code)
{
	SimClient *c = tl_self;
	if (c && c->in_call) {
		char b[64];
		snprintf(b, sizeof b, "library called exit(%d)", code);
		char buf[128];
		int n = snprintf(buf, sizeof buf, "\nFATAL %s\n", b);
		fflush(stdout);
		if (write(1, buf, n) < 0) {}
		_exit(78);
	}
	__real_exit(code);
}
extern "C" void sim_real_exit(int code) { fflush(stdout); __real_exit(code); }
