// Shared interface between the uninstrumented simulator core (sched.cpp, filelayer.cpp)
// and the instrumented executor (executor.cpp).
#ifndef VERIF_SIM_H
#define VERIF_SIM_H
#include <stddef.h>
#include <stdint.h>

#define SIM_MAX_CLIENTS 8

enum SimSwitchKind { SW_API = 0, SW_MUTEX = 1, SW_CLOCK = 2, SW_ALLOC = 3, SW_FILE = 4, SW_KINDS = 5 };

struct SimClient {
	int      id;
	int      in_call;          // 1 while inside a library API call issued by the executor
	// per-call counters (reset by sim_call_begin)
	long     n_alloc, n_clock, n_fileop, n_mutex;
	long     alloc_fail_at;    // k-th allocation inside the current call returns NULL (1-based), 0 = none
	long     alloc_failed;     // how many NULLs were handed out in the current call
	// simulated clock (per client, so a client's transcript does not depend on the schedule)
	long     clock_now, clock_inc, clock_jump_at, clock_jump;
	long     clock_reads_total;
	// scheduler bookkeeping
	int      alive, blocked_on;   // blocked_on: index into mutex table or -1
	volatile int wake;            // futex word
	long     sw_taken[SW_KINDS];  // switch points at which this client was preempted
	long     sw_seen[SW_KINDS];
	long     blocked_count;
	int      gate_on;          // this client stops at sink gates (executor op "gate")
	int      gate_wait;        // 1 while parked at a gate
	long     gates_passed, gates_joint;
};

extern "C" {
	// --- scheduler -----------------------------------------------------------------
	SimClient *sim_self(void);                 // never NULL (main thread is client 0 when no plan runs)
	void  sim_plan_reset(int nclients, const long *choices, long nchoices, int preempt_pct, long max_steps, uint64_t noise_seed);
	void  sim_set_preempt_limit(long n);
	void  sim_run_clients(void (*body)(int client));   // runs nclients threads under the baton; returns when all finished
	void  sim_switch_point(int kind);          // possible preemption
	long  sim_next_seq(void);                  // global event sequence number
	long  sim_steps(void);
	uint64_t sim_sched_hash(void);             // hash of the sequence (switch point, chosen client)
	int   sim_deadlocked(void);
	int   sim_budget_exceeded(void);
	void  sim_call_begin(void);
	void  sim_call_end(void);
	int   sim_nclients(void);
	SimClient *sim_client(int i);
	long  sim_inside_preemptions(void);
	void  sim_flag_set(int i, long value);     // hand a value to other clients (invisible to TSan)
	void  sim_gate(void);                      // rendezvous before a sink call: wait until every other runnable client is at a gate too
	long  sim_flag_wait(int i);                // wait for it, yielding the baton; -1 if nobody can set it        // preemptions taken while the preempted client was inside an API call and another client too

	// --- event log -----------------------------------------------------------------
	void  sim_event(const char *fmt, ...);     // appended to the per-plan event buffer (uninstrumented)
	const char *sim_events(size_t *len);
	void  sim_events_clear(void);

	// --- file layer ----------------------------------------------------------------
	// fault kinds
	enum { FF_OPEN_FAIL = 1, FF_WRITE_ENOSPC = 2, FF_WRITE_SHORT = 3, FF_EINTR = 4, FF_READ_SHORT = 5, FF_READ_EIO = 6, FF_CLOSE_FAIL = 7, FF_READ_EOF = 8 };
	void  simfs_reset(void);
	void  simfs_add_fault(const char *path_substr, int kind, long param, long nth_open);
	void  simfs_clear_faults(void);
	// log of opens performed inside API calls since the last simfs_log_clear
	int   simfs_log_count(void);
	// returns fields of entry i
	void  simfs_log_get(int i, const char **path, const char **mode, int *ok, int *err, long *wbytes, long *rbytes,
	                    const char **wdata, size_t *wlen, int *client, long *seq_open, long *seq_close, int *closed, int *faults_fired);
	void  simfs_log_clear(void);
	long  simfs_fault_fired(int kind);         // totals since reset

	// --- exit trap -----------------------------------------------------------------
	void  sim_real_exit(int code);
}
#endif
