#!/usr/bin/env python3
"""Prints the prompt given to an independent sub-agent that authors a property-breaking change.
The agent receives only the property text and its scratch worktree path (nothing from /verif)."""
import json, sys
pid, wt = sys.argv[1], sys.argv[2]
extra = sys.argv[3] if len(sys.argv) > 3 else ""
for l in open('/verif/properties.jsonl'):
    p = json.loads(l)
    if p['id'] == pid:
        break
print(f"""You are working in a scratch git worktree of the open-source C++ library usgs-coupled/iphreeqc (IPhreeqc: the USGS library that wraps the PHREEQC geochemical engine with C/C++/Fortran APIs). The worktree is at {wt} and is already checked out. Work ONLY inside {wt} (and scratch files under {wt} itself). Never touch /repo, /verif or any other worktree under /tmp. There is no network.

Here is a semantic property that the library is supposed to satisfy:

  Title: {p['title']}
  Statement: {p['statement']}
  Quantified over: {p['quantifier']['text']}

YOUR TASK: author a *realistic* change to the library's source code (files under {wt}/src) that BREAKS this property, while the library still compiles and the existing test suite still passes. It should look like a plausible regression a maintainer could introduce (an optimisation, a refactoring slip, a missed reset, a wrong index, a narrowed lock, a forgotten field ...), not sabotage that announces itself. Most importantly the breakage must need something SPECIFIC to manifest — a particular interleaving of threads, a crash or fault at a particular point, a multi-step sequence of operations, an unusual input, or two cooperating sites that each look fine alone — NOT something that ordinary use would expose at once. {extra}

Deliverables, all inside {wt}:
 1. {wt}/patch.diff — the change as produced by `git -C {wt} diff -- src` (source changes only).
 2. {wt}/demo/ — a demonstration: a small standalone C++ program demo.cpp (plus any input files it needs; use absolute paths to databases under {wt}/database and examples under {wt}/phreeqc3-examples) that links against the built static library, exits 0 and prints PASS when the property holds (unchanged code) and exits non-zero printing what went wrong when your change is applied. If the breakage depends on thread timing make the demo force the timing as deterministically as you can (and say how often it fails).
 3. {wt}/demo/README.txt — which clause of the property is broken, what exactly is needed for it to manifest, and the exact commands you ran.

How to build and test (all offline):
   cmake -G Ninja -S {wt} -B {wt}/_build -DCMAKE_BUILD_TYPE=RelWithDebInfo -DCMAKE_CXX_FLAGS=-Wno-error -DBUILD_TESTING=ON -DIPHREEQC_ENABLE_MODULE=ON -DFETCHCONTENT_SOURCE_DIR_GOOGLETEST=/usr/src/googletest -DFETCHCONTENT_TRY_FIND_PACKAGE_MODE=ALWAYS -DFETCHCONTENT_UPDATES_DISCONNECTED=ON
   cmake --build {wt}/_build -j8          # about 1.5-3 minutes the first time
   ctest --test-dir {wt}/_build -j8 --timeout 900 ; ctest --test-dir {wt}/_build --rerun-failed -j1 --timeout 900
 A few tests write the same file names and collide when run in parallel, so a test counts as failing only if it still fails in the serial re-run. On the unchanged code every test passes in the serial re-run.
 The static library is {wt}/_build/libIPhreeqcrwd.a. Build the demo e.g. with
   g++ -O1 -g -std=c++14 -I{wt}/src -I{wt}/src/phreeqcpp -I{wt}/src/phreeqcpp/common -I{wt}/src/phreeqcpp/PhreeqcKeywords {wt}/demo/demo.cpp {wt}/_build/libIPhreeqcrwd.a -lpthread -o {wt}/demo/demo
 Public API: {wt}/src/IPhreeqc.hpp (C++), {wt}/src/IPhreeqc.h (C), {wt}/src/IPhreeqc_interface_F.h (C-callable Fortran glue). Engine sources: {wt}/src/phreeqcpp. Documentation of the input language: {wt}/phreeqc3-doc, examples {wt}/phreeqc3-examples, databases {wt}/database.

You MUST confirm all of the following yourself before answering, and report the evidence:
  (a) with the change applied the library builds and every test passes (serial re-run rule above);
  (b) with the change applied the demo fails (non-zero exit);
  (c) with the change reverted (`git -C {wt} stash` or `git -C {wt} checkout -- src`, rebuild) the demo passes; then re-apply the change (`git -C {wt} apply patch.diff`) so the worktree ends with the change applied and built.
Do not modify the tests. Do not commit. Keep the change small (typically 1-15 lines). In your final answer give: a one-paragraph description of the change, which clause it breaks, what it needs to manifest, and the evidence for (a), (b), (c).""")
