"""usage: c02_plan_to_input.py <replay.json> <out.pqi>  — turns the plan of a C02 replay file into one plain PHREEQC input file"""
import sys, json
sys.path.insert(0,'/verif/driver'); sys.path.insert(0,'/verif/harness')
import c02
plan=json.load(open(sys.argv[1]))['plan']
db=plan.get('db','phreeqc')
txt=c02.RATES
present=set()
for c in plan['cells']:
    txt+=c02.cell_text(c,db)
    present.add(("solution",c["n"]))
    for kd in c["kinds"]: present.add((kd,c["n"]))
for st in plan['steps']:
    t=c02.step_text(st,present,db)
    if t is None: continue
    pre=set(present)
    if st["op"]=="react":
        present.add(("solution",st["b"]))
        for kd in c02.SAVABLE:
            if (kd,st["a"]) in pre: present.add((kd,st["b"]))
    elif st["op"]=="mix": present.add(("solution",st["c"]))
    elif st["op"]=="copy":
        for kd in c02.STATE_KINDS:
            if (kd,st["a"]) in pre: present.add((kd,st["b"]))
    txt+=t
open(sys.argv[2],'w').write(txt)
