#!/bin/bash
# usage: tools/compare_examples.sh <base-commit>
# Builds the library at <base-commit> (scratch worktree under /tmp, removed afterwards) and at /repo's HEAD (/repo/_build), runs the 32
# shipped examples through IPhreeqc with both and compares output text (timing banner masked), selected output and return codes.
set -u
BASE=$1; WT=/tmp/wt/cmp_base; OUT=/tmp/cmp_examples; rm -rf $OUT; mkdir -p $OUT
git -C /repo worktree add --detach $WT $BASE >/dev/null 2>&1 || exit 2
cmake -G Ninja -S $WT -B $WT/_build -DCMAKE_BUILD_TYPE=RelWithDebInfo -DCMAKE_CXX_FLAGS=-Wno-error -DBUILD_TESTING=OFF >/dev/null 2>&1 && cmake --build $WT/_build -j8 >/dev/null 2>&1 || exit 2
cmake --build /repo/_build -j8 >/dev/null 2>&1
for v in base head; do W=$WT; [ $v = head ] && W=/repo
  g++ -O1 -std=c++14 -I$W/src -I$W/src/phreeqcpp -I$W/src/phreeqcpp/common -I$W/src/phreeqcpp/PhreeqcKeywords /verif/tools/run_ex.cpp $W/_build/libIPhreeqcrwd.a -lpthread -o $OUT/run_$v || exit 2
  D=$OUT/$v; mkdir -p $D/cwd; cp -r /repo/phreeqc3-examples/* $D/cwd/ 2>/dev/null
  (cd $D/cwd; for ex in ex1 ex2 ex2b ex3 ex4 ex5 ex6 ex7 ex8 ex9 ex10 ex11 ex12 ex12a ex12b ex13a ex13b ex13c ex14 ex15 ex15a ex15b ex16 ex17 ex17b ex18 ex19 ex19b ex20a ex20b ex21 ex22; do
     [ -f $ex ] || continue; db=/repo/database/phreeqc.dat; case $ex in ex15*) db=$D/cwd/ex15.dat;; esac
     timeout 900 $OUT/run_$v $db $ex $D/$ex >/dev/null 2>&1; done)
done
n=0; bad=0
for f in $OUT/base/*.sel $OUT/base/*.ret $OUT/base/*.out; do b=$(basename $f); n=$((n+1))
  if ! diff <(grep -a -v "End of Run after\|^-*$" $f) <(grep -a -v "End of Run after\|^-*$" $OUT/head/$b) >/dev/null; then echo "DIFF $b"; bad=$((bad+1)); fi; done
echo "compared $n files, $bad differ"
git -C /repo worktree remove --force $WT; git -C /repo worktree prune; rm -rf $OUT
exit $((bad>0))
