#!/bin/bash
# usage: confirm_mutant.sh <worktree> <seeded-id> <property>
# Confirms independently that (a) with the change the suite passes, (b) the demo fails, (c) without the change the demo passes;
# then stores patch.diff + demo + meta.json under /verif/seeded/<id>/ .
set -u
WT=$1; ID=$2; PROP=$3
OUT=/verif/seeded/$ID
LOG=$WT/confirm.log
: > $LOG
cd $WT || exit 2
INC="-I$WT/src -I$WT/src/phreeqcpp -I$WT/src/phreeqcpp/common -I$WT/src/phreeqcpp/PhreeqcKeywords"
suite() {
  ctest --test-dir $WT/_build -j8 --timeout 900 >> $LOG 2>&1
  ctest --test-dir $WT/_build --rerun-failed -j1 --timeout 900 > $WT/rerun.log 2>&1
  cat $WT/rerun.log >> $LOG
  if grep -q "tests failed out of" $WT/rerun.log && ! grep -q "100% tests passed" $WT/rerun.log; then return 1; fi
  return 0
}
demo() {
  (cd $WT/demo && g++ -O1 -g -std=c++14 $INC demo.cpp $WT/_build/libIPhreeqcrwd.a -lpthread $(cat LDFLAGS 2>/dev/null) -o demo_confirm >> $LOG 2>&1) || return 99
  (cd $WT/demo && timeout 600 ./demo_confirm >> $LOG 2>&1); return $?
}
git -C $WT checkout -- src >> $LOG 2>&1
git -C $WT apply $WT/patch.diff >> $LOG 2>&1 || { echo "patch does not apply"; exit 2; }
cmake --build $WT/_build -j8 >> $LOG 2>&1 || { echo "build with change failed"; exit 2; }
suite; A=$?
demo; B=$?
git -C $WT checkout -- src >> $LOG 2>&1
cmake --build $WT/_build -j8 >> $LOG 2>&1 || { echo "build without change failed"; exit 2; }
demo; C=$?
echo "suite_with_change_rc=$A demo_with_change_rc=$B demo_without_change_rc=$C"
if [ $A -eq 0 ] && [ $B -ne 0 ] && [ $B -ne 99 ] && [ $C -eq 0 ]; then
  mkdir -p $OUT
  cp $WT/patch.diff $OUT/patch.diff
  rm -rf $OUT/demo; mkdir -p $OUT/demo
  (cd $WT/demo && for f in *; do case "$f" in demo|demo_confirm|*.o|*.out|*.log) ;; *) [ -f "$f" ] && [ $(stat -c %s "$f") -lt 200000 ] && cp "$f" $OUT/demo/ ;; esac; done)
  cat > $OUT/meta.json <<EOM
{"id": "$ID", "property": "$PROP", "confirmed": {"suite_passes_with_change": true, "demo_fails_with_change_rc": $B, "demo_passes_without_change": true},
 "ran": "tools/confirm_mutant.sh $WT $ID $PROP (ctest -j8 + serial rerun of failures; demo built against libIPhreeqcrwd.a with and without patch.diff)"}
EOM
  echo CONFIRMED $ID
else
  echo NOT-CONFIRMED $ID
fi
