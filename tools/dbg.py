#!/usr/bin/env python3
"""debug helper: tools/dbg.py <module> <tier> <first> <count> [key-regex]  — runs plans in-process, prints violations"""
import sys, os, re, json, time
HERE = os.path.dirname(os.path.dirname(os.path.abspath(__file__)))
sys.path.insert(0, os.path.join(HERE, "driver")); sys.path.insert(0, os.path.join(HERE, "harness"))
os.chdir(HERE)
import importlib, runner
from simlib import SplitMix, mix_seed
mod, tier, first, count = sys.argv[1], sys.argv[2], int(sys.argv[3]), int(sys.argv[4])
pat = sys.argv[5] if len(sys.argv) > 5 else "."
h = importlib.import_module(mod)
seed = int(os.environ.get("VERIF_SEED", runner.DEFAULT_SEED))
wd = os.path.join(HERE, "work", "dbg_%d" % os.getpid()); os.makedirs(wd, exist_ok=True)
ctx = runner.Ctx(wd, "dbg")
shown = 0
for i in range(first, first + count):
    s = mix_seed(seed, h.PROP, i)
    plan = h.generate(SplitMix(s), tier, i); plan["seed"] = s
    t0 = time.time()
    rep = h.check_plan(ctx, plan)
    vs = [v for v in rep.violations if re.search(pat, v["key"])]
    print("run %d: %d violations, %.2fs, stats %s" % (i, len(rep.violations), time.time() - t0, rep.stats if os.environ.get("DBG_STATS") else ""))
    for v in vs[:3]:
        print("   ", v["cls"], "|", v["key"], "|", v["detail"][:int(os.environ.get("DBG_LEN", "600"))])
        shown += 1
        if os.environ.get("DBG_PLAN"):
            json.dump({"property": h.PROP, "violation": v, "plan": plan}, open(os.environ["DBG_PLAN"], "w"), indent=1)
    if shown >= int(os.environ.get("DBG_MAX", "5")):
        break
ctx.close()
import shutil; shutil.rmtree(wd, ignore_errors=True)
