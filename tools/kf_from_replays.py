#!/usr/bin/env python3
"""tools/kf_from_replays.py <replays dir> <PROP> <first id number>
Prints known-finding entries (status open) for the violation keys found in a directory of replay files that no entry of
known_findings.json matches yet.  The output is reviewed and appended by hand; nothing is written at check run time."""
import glob, json, os, re, sys
d, prop, n = sys.argv[1], sys.argv[2], int(sys.argv[3])
known = json.load(open("/verif/known_findings.json"))["findings"]
out = []
for f in sorted(glob.glob(os.path.join(d, prop + "_*.json"))):
    r = json.load(open(f))
    key = r["violation"]["key"]
    if any(k["property"] == prop and re.search(k["match"], key) for k in known + out):
        continue
    p = r["plan"]
    if p.get("family") == "alloc":
        inp = "input %s with the C allocation at fraction %.3f of the %s failing" % (p["base"], p["fault"]["at"], "load" if p["fault"].get("in_load") else "run")
    elif p.get("family") == "file":
        inp = "input %s with file fault %s" % (p["base"], json.dumps(p["fault"]))
    elif p.get("family") == "args":
        inp = "argument case %s" % p.get("arg")
    else:
        inp = "%s %s with edits %s" % (p.get("family"), p.get("db") or p.get("base"), json.dumps([{k: (v if not isinstance(v, str) or len(v) < 30 else v[:12] + "...(%d chars)" % len(v)) for k, v in e.items()} for e in p.get("edits", [])]))
    frames = re.findall(r"#\d+ 0x[0-9a-f]+ in ([^\n]{0,90}?) (/repo/[^\s]+)", r["violation"]["detail"])
    top = ", ".join("%s (%s)" % (a.split("(")[0][-40:], b.split("/")[-1]) for a, b in frames[:3])
    out.append({"id": "KF%d" % n, "property": prop, "status": "open", "match": "^" + re.escape(key.split("|")[0]) + (r"(\|.*)?$" if key.startswith("crash:") else "$"),
                "what": "%s; first found with: %s%s" % (key, inp, ("; stack: " + top) if top else "")})
    n += 1
print(json.dumps(out, indent=1))
