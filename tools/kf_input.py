"""usage: kf_input.py <plan.json> <out.pqi>  — writes the damaged input text of a C08 plan to a file (for a standalone reproducer)"""
import sys,json
sys.path.insert(0,'/verif/driver'); sys.path.insert(0,'/verif/harness')
import c08
plan=json.load(open(sys.argv[1]))
bops,bidx,is_load=c08.bad_call_ops(plan,None)
for o in bops:
    if o[0]=='call' and o[3]=='RunString':
        open(sys.argv[2],'w').write(o[4] if len(o)>4 else '')
        print('written', len(o[4]))
    else: print(o[:4])
