"""re-runs the recorded recipe (input + edits) of every open C08 known finding on the current tree and prints the violation keys it still produces"""
import sys,json,re
sys.path.insert(0,'/verif/driver'); sys.path.insert(0,'/verif/harness')
import c08, runner
ctx=runner.Ctx('/verif/work/kf_recipes','d')
d=json.load(open('/verif/known_findings.json'))
for f in d['findings']:
    if f['status']!='open' or f['property']!='C08': continue
    m=re.search(r'first found with: input (\S+) with edits (\[.*?\])(;|$)', f['what'])
    if not m: print(f['id'],'no recipe'); continue
    base=m.group(1)
    try: edits=json.loads(m.group(2))
    except Exception as e: print(f['id'],'unparsable', e); continue
    if any('...' in str(e.get('text','')) for e in edits): 
        for e in edits:
            if '...' in str(e.get('text','')): e['text']='-'*300
    out=[]
    for entry in ("string","file","acc"):
        plan={"prop": "C08", "family": "input", "base": base, "entry": entry, "edits": edits, "fault": None, "probe": "p_nosel", "prior_variant": True, "setters": [], "db2": "phreeqc"}
        try:
            rep=c08.check_plan(ctx,plan)
            out.append([v['key'][:90] for v in rep.violations])
        except Exception as e:
            out.append('ERR %r'%e)
    print(f['id'], base, out)
ctx.close()
