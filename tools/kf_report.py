"""usage: kf_report.py KFnn ...  — re-runs the recipe of the named C08 known findings and prints the sanitizer report; stores the plan as work/kf_<id>_plan.json"""
import sys,json,re
sys.path.insert(0,'/verif/driver'); sys.path.insert(0,'/verif/harness')
import c08, runner
ctx=runner.Ctx('/verif/work/kf_report','d')
d=json.load(open('/verif/known_findings.json'))
want=sys.argv[1:]
for f in d['findings']:
    if f['id'] not in want: continue
    m=re.search(r'first found with: input (\S+) with edits (\[.*?\])(;|$)', f['what'])
    base=m.group(1); edits=json.loads(m.group(2))
    for e in edits:
        if '...' in str(e.get('text','')): e['text']='-'*300
    plan={"prop": "C08", "family": "input", "base": base, "entry": "string", "edits": edits, "fault": None, "probe": "p_nosel", "prior_variant": True, "setters": [], "db2": "phreeqc"}
    rep=c08.check_plan(ctx,plan)
    print("=====",f['id'])
    t=ctx.executor("asanlite").stderr_tail(30000)
    print("\n".join(l for l in t.split("\n") if not re.search(r" in (std::|__gnu|operator new|operator delete|__interceptor)", l))[:int(sys.argv[0] and 6000)])
    ctx.close(); ctx=runner.Ctx('/verif/work/kf_report','d')
    json.dump(plan,open('/verif/work/kf_%s_plan.json'%f['id'],'w'))
ctx.close()
