#!/bin/bash
# usage: tools/regress_mutants.sh  — applies every seeded change in turn and runs its property's quick check; one line per change
cd /verif
for d in seeded/*/; do
  id=$(basename $d)
  prop=$(python3 -c "import json;print(json.load(open('$d/meta.json'))['property'])")
  out=$(timeout 3000 tools/try_mutant.sh $id $prop 2>&1 | grep -v "^KNOWN")
  rc=$(echo "$out" | head -1 | sed 's/.*exit //')
  key=$(echo "$out" | grep "^violation" | head -1 | cut -c1-120)
  echo "$id $prop exit=$rc $key"
done
