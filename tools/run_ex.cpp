#include "IPhreeqc.hpp"
#include <cstdio>
#include <cstring>
#include <string>
#include <unistd.h>
// usage: run_ex <database> <input file> <out prefix>
int main(int argc,char**argv){ IPhreeqc p; if(p.LoadDatabase(argv[1])) { printf("LOADFAIL\n"); return 2; }
 p.SetOutputStringOn(true); p.SetSelectedOutputStringOn(true); p.SetDumpStringOn(true);
 int r=p.RunFile(argv[2]);
 std::string pre=argv[3]; FILE*f=fopen((pre+".out").c_str(),"w"); fputs(p.GetOutputString(),f); fclose(f);
 f=fopen((pre+".sel").c_str(),"w"); for(int i=0;i<p.GetSelectedOutputCount();i++){ int n=p.GetNthSelectedOutputUserNumber(i); p.SetCurrentSelectedOutputUserNumber(n); fprintf(f,"== %d\n%s",n,p.GetSelectedOutputString()); } fclose(f);
 f=fopen((pre+".ret").c_str(),"w"); fprintf(f,"%d\n%s",r,p.GetErrorString()); fclose(f);
 return 0; }
