#!/bin/bash
# usage: tools/seeds.sh "<props>" "<seeds>"  — runs the quick check of each property under each seed, prints one line per run
cd /verif
for P in $1; do for S in $2; do
  VERIF_SEED=$S ./check $P quick > work/seed_${P}_$S.log 2>&1; RC=$?
  echo "$P seed=$S exit=$RC $(tail -1 work/seed_${P}_$S.log | cut -c1-160)"
  grep -E "^violation|UNREPEAT|HARNESS" work/seed_${P}_$S.log | cut -c1-220 | head -5
done; done
