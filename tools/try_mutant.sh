#!/bin/bash
# usage: try_mutant.sh <seeded-id> <PROP> [tier]  — applies the seeded change to /repo, runs the property's check, reverts.
ID=$1; PROP=$2; TIER=${3:-quick}
cd /verif
git -C /repo diff --quiet || { echo "/repo has uncommitted changes"; exit 2; }
git -C /repo apply /verif/seeded/$ID/patch.diff 2>/dev/null || { git -C /repo apply --3way /verif/seeded/$ID/patch.diff >/dev/null 2>&1 && git -C /repo reset -q; } || { echo "patch does not apply"; exit 2; }
trap 'git -C /repo reset -q; git -C /repo checkout -- . ' EXIT
./check $PROP $TIER > /verif/work/try_${ID}_${PROP}.log 2>&1
RC=$?
echo "try $ID $PROP $TIER: exit $RC"
grep -E "^VIOLATION|^violation:|KNOWN-FINDING|HARNESS|UNREPEAT" /verif/work/try_${ID}_${PROP}.log | cut -c1-300 | head -8
tail -1 /verif/work/try_${ID}_${PROP}.log
